#!/bin/bash
# regenerate the committed evidence from /verif against /repo (quick tier, seed 0), the manifest, and validate both
cd /verif
for i in $(seq -w 1 20); do
  VERIF_SEED=0 PYTHONHASHSEED=0 /venv/bin/python -m jtv C$i --tier quick 2>&1 | grep -E "^(C[0-9]+ tier|VIOLATION|INCONCLUSIVE|KNOWN-FINDING)" | cut -c1-160
done
/venv/bin/python -m jtv.manifest_gen
python3-vt - <<'PY'
import json, jsonschema, glob
jsonschema.validate(json.load(open('/verif/MANIFEST.json')), json.load(open('/root/.vp/MANIFEST.schema.json')))
sch = json.load(open('/root/.vp/EVIDENCE.schema.json'))
for f in sorted(glob.glob('/verif/evidence/*.json')):
    jsonschema.validate(json.load(open(f)), sch)
print("manifest and", len(glob.glob('/verif/evidence/*.json')), "evidence files valid")
PY

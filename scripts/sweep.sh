#!/bin/bash
# usage: scripts/sweep.sh <tier> <seed...>   - runs every check; prints one line per check
# (evidence is NOT written: sweeps are exploration, the committed evidence comes from `python -m jtv`)
tier=$1; shift
for seed in "$@"; do
  for i in $(seq -w 1 20); do
    id=C$i
    start=$(date +%s)
    out=$(VERIF_SEED=$seed /venv/bin/python -m jtv $id --tier $tier --no-evidence 2>&1)
    rc=$?
    echo "seed=$seed $id rc=$rc $(( $(date +%s) - start ))s :: $(echo "$out" | grep -E '^(C[0-9]+ tier|VIOLATION|INCONCLUSIVE|witness)' | head -4 | cut -c1-400 | tr '\n' '|')"
  done
done

#!/bin/bash
# the whole self-test (built-in mutants + every stored seed against its property's own quick check) in three streams
for k in 0 1 2; do
  /venv/bin/python -m jtv.selftest.mutate --seeded --part $k/3 > regress_part$k.log 2>&1 &
done
wait
cat regress_part0.log regress_part1.log regress_part2.log

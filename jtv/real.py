"""Observation of the real jaxtyping through its public surface only."""

from __future__ import annotations

import ast
import contextlib
import io
import threading
import warnings

import numpy as np

import jaxtyping
from jaxtyping import AnnotationError, jaxtyped, print_bindings

warnings.filterwarnings("ignore")

AXIS_HDR = "The current values for each jaxtyping axis annotation are as follows."
TREE_HDR = "The current values for each jaxtyping PyTree structure annotation are as follows."


class _ThreadAwareStdout:
    """sys.stdout proxy: a thread that has set a capture buffer gets its prints there,
    every other thread goes to the original stream (contextlib.redirect_stdout swaps a
    process-global and would mix the transcripts of concurrently running threads)."""

    def __init__(self, orig):
        self._orig = orig
        self._tl = threading.local()

    def write(self, s):
        buf = getattr(self._tl, "buf", None)
        if buf is not None:
            return buf.write(s)
        return self._orig.write(s)

    def flush(self):
        if getattr(self._tl, "buf", None) is None:
            self._orig.flush()

    def __getattr__(self, name):
        return getattr(self._orig, name)


def _proxy():
    import sys

    if not isinstance(sys.stdout, _ThreadAwareStdout):
        sys.stdout = _ThreadAwareStdout(sys.stdout)
    return sys.stdout


def raw_transcript() -> str:
    px = _proxy()
    buf = io.StringIO()
    prev = getattr(px._tl, "buf", None)
    px._tl.buf = buf
    try:
        print_bindings()
    finally:
        px._tl.buf = prev
    return buf.getvalue()


def parse_transcript(text):
    """-> (single: dict, variadic: dict, structures: dict name->str)."""
    single, variadic, trees = {}, {}, {}
    mode = None
    for line in text.splitlines():
        if line == AXIS_HDR:
            mode = "axis"
            continue
        if line == TREE_HDR:
            mode = "tree"
            continue
        if not line.strip():
            continue
        k, _, v = line.rpartition("=") if mode == "axis" else line.partition("=")
        if mode == "axis":
            try:
                val = ast.literal_eval(v)
            except Exception:
                val = v
            if isinstance(val, tuple):
                variadic[k] = val
            else:
                single[k] = val
        elif mode == "tree":
            trees[k] = v
        else:
            single.setdefault("<unparsed>", []).append(line)
    return single, variadic, trees


def bindings():
    return parse_transcript(raw_transcript())


def check(x, ann):
    """-> 'ok' | 'no' | 'annot' | 'exc:<Type>'"""
    try:
        return "ok" if isinstance(x, ann) else "no"
    except AnnotationError:
        return "annot"
    except Exception as e:  # noqa
        return "exc:" + type(e).__name__


_np_cache = {}


def np_array(shape, dtype="float32"):
    key = (tuple(shape), str(dtype))
    a = _np_cache.get(key)
    if a is None:
        a = np.broadcast_to(np.zeros((), dtype=dtype), tuple(shape))
        if len(_np_cache) < 20000:
            _np_cache[key] = a
    return a


_hooked_cls = []


def hooked_shape_array(shape, dtype="float32"):
    """an ndarray subclass whose `shape` is a property that has itself been instrumented (as every function of a
    package under the import hook is): reading it DURING a check makes a jaxtyped call, which makes another one"""
    if not _hooked_cls:
        import typeguard

        ns = {"np": np, "jaxtyped": jaxtyped, "tc": typeguard.typechecked}
        exec_src(
            "@jaxtyped(typechecker=tc)\n"
            "def _as_tuple(t: tuple, n: int) -> tuple:\n"
            "    return tuple(t)\n"
            "class HookedShapeArray(np.ndarray):\n"
            "    @property\n"
            "    @jaxtyped(typechecker=tc)\n"
            "    def shape(self) -> tuple:\n"
            "        return _as_tuple(np.ndarray.shape.__get__(self), 0)\n",
            ns,
        )
        _hooked_cls.append(ns["HookedShapeArray"])
    return np_array(shape, dtype).view(_hooked_cls[0])


_prelude_done = []


def hostile_prelude(rec=None):
    """Legitimate activity that has nothing to do with what a check is about to ask, run once per process before
    the main workload of SOME shards: whatever a check decides must not depend on it (every property here is
    stated for every history). Exceptions are swallowed - the prelude only creates a past."""
    if _prelude_done:
        return
    _prelude_done.append(1)
    import typing

    import jax
    import typeguard

    import jaxtyping
    from jaxtyping import Float, PyTree, Shaped, config

    def quiet(thunk):
        try:
            return thunk()
        except BaseException:  # noqa
            return None

    class _Unflattenable:
        pass

    def _boom(_):
        raise RuntimeError("cannot flatten")

    quiet(lambda: jax.tree_util.register_pytree_node(_Unflattenable, _boom, lambda a, c: _Unflattenable()))
    N = np.ndarray
    for ctx in (False, True):
        def acts():
            quiet(lambda: isinstance([np.zeros(2), _Unflattenable()], PyTree[Float[N, "a"]]))  # flatten raises
            quiet(lambda: isinstance({1: np.zeros(2), "x": np.zeros(2)}, PyTree[Float[N, "a"]]))  # unsortable keys
            quiet(lambda: isinstance([], PyTree[Float]))  # misuse: AnnotationError from inside the flatten
            quiet(lambda: isinstance(np.zeros(2, dtype=np.longlong), Shaped[N, "..."]))  # equal-but-differently-named dtypes
            quiet(lambda: isinstance(np.zeros(2, dtype=np.ulonglong), jaxtyping.UInt[N, "..."]))
            quiet(lambda: isinstance([np.zeros((2, 3), "float32"), np.zeros((2, 4), "float32")], PyTree[Float[N, "*#b c"]]))  # later leaf fails
            quiet(lambda: isinstance({"k": np.zeros(3, "float32")}, PyTree[Float[N, "?q"], "Tprelude"]))

        if ctx:
            with jaxtyped("context"):
                acts()
        else:
            acts()
    # a window with checking switched off in which things are built and thrown away
    quiet(lambda: config.update("jaxtyping_disable", True))
    try:
        quiet(lambda: Float[N, "a b"])
        quiet(lambda: PyTree[Float[N, "a"]])
        quiet(lambda: jaxtyped(typechecker=typeguard.typechecked)(lambda x: x))
    finally:
        config.update("jaxtyping_disable", False)
    # recursion of one decorated function, three deep, and mutual recursion through a context block
    ns = {"jaxtyped": jaxtyped, "tc": typeguard.typechecked, "Float": Float, "N": N, "np": np}
    quiet(lambda: exec_src(
        "@jaxtyped(typechecker=tc)\n"
        "def rec(x: Float[N, 'n'], d: int) -> Float[N, 'n']:\n"
        "    if d:\n"
        "        with jaxtyped('context'):\n"
        "            rec(np.zeros(x.shape[0] + 1, 'float32'), d - 1)\n"
        "    return x\n"
        "rec(np.zeros(2, 'float32'), 3)\n", ns))
    # generator functions decorated in the old double-decorator spelling whose annotations are (process-wide, cached)
    # PyTree classes: decorating them must leave those classes meaning what they mean
    ns2 = {"jaxtyped": jaxtyped, "tc": typeguard.typechecked, "PyTree": PyTree, "typing": typing}
    for leaf, name in (("int", "'T'"), ("int", "'S T'"), ("int", "'T ...'"), ("str", "'T'"), ("typing.Any", "'T'"), ("int", None), ("typing.Any", None)):
        ann = f"PyTree[{leaf}, {name}]" if name else f"PyTree[{leaf}]"
        quiet(lambda: exec_src(
            f"@jaxtyped\n@tc\ndef gen(x: {ann}) -> typing.Iterator[{ann}]:\n    yield x\n"
            f"def gen2(x: {ann}) -> typing.Generator[{ann}, None, {ann}]:\n    yield x\n    return x\n"
            "gen2 = jaxtyped(tc(gen2))\n", dict(ns2)))
    if rec is not None:
        rec.count("hostile_prelude_runs")


def toplevel_probes(rec, prop, when):
    """a handful of checks made OUTSIDE every context whose answers are known outright; asked after the hostile
    prelude and again after a shard's workload (checks made inside contexts start from a clean slate and cannot see
    per-thread state that was left behind)"""
    import typing

    import jaxtyping
    from jaxtyping import Float, Int, PyTree, Shaped

    N = np.ndarray
    probes = [
        ("int32 array vs Float[N, '...']", lambda: isinstance(np_array((2,), "int32"), Float[N, "..."]), False),
        ("rank-2 array vs Float[N, 'a']", lambda: isinstance(np_array((2, 3)), Float[N, "a"]), False),
        ("(2,3) vs Shaped[N, 'a a']", lambda: isinstance(np_array((2, 3)), Shaped[N, "a a"]), False),
        ("(3,3) vs Shaped[N, 'a a']", lambda: isinstance(np_array((3, 3)), Shaped[N, "a a"]), True),
        ("int64 array vs Int[N, '...']", lambda: isinstance(np.zeros(2, dtype="int64"), Int[N, "..."]), True),
        ("[i32(2)] vs PyTree[Float[N, 'a']]", lambda: isinstance([np_array((2,), "int32")], PyTree[Float[N, "a"]]), False),
        ("(1, 's') vs PyTree[int, 'T']", lambda: isinstance((1, "s"), PyTree[int, "T"]), False),
        ("(1, 2) vs PyTree[int, 'T']", lambda: isinstance((1, 2), PyTree[int, "T"]), True),
        ("[1.5] vs PyTree[int]", lambda: isinstance([1.5], PyTree[int]), False),
        ("unbound structure in 'S T'", lambda: isinstance((1, 2), PyTree[int, "Sjtv T"]), "AnnotationError"),
        ("'?n' outside a PyTree", lambda: isinstance(np_array((2,)), Shaped[N, "?n"]), "AnnotationError"),
        ("unbound name in 'q+1'", lambda: isinstance(np_array((2,)), Shaped[N, "q+1"]), "AnnotationError"),
        ("print_bindings() at top level", lambda: raw_transcript().strip(), ""),
    ]
    for what, thunk, want in probes:
        try:
            got = thunk()
        except Exception as e:  # noqa
            got = type(e).__name__
        rec.count("toplevel_probes")
        if got != want:
            rec.violation("toplevel-state", {"probe": what, "when": when}, f"outside every context, {when}: {what} -> {got!r}, expected {want!r}", mechanism="toplevel-probe-" + when.split(" ")[0] + "-deviates")
            return False
    return True


_jax_cache = {}


def jax_array(shape, dtype="float32"):
    import jax

    key = (tuple(shape), str(dtype))
    a = _jax_cache.get(key)
    if a is None:
        # device_put of a host buffer: no XLA compilation per shape
        a = jax.device_put(np.zeros(tuple(shape), dtype=dtype))
        if len(_jax_cache) < 5000:
            _jax_cache[key] = a
    return a


class Duck:
    """Duck array: anything with .shape and .dtype (docs/api/array.md)."""

    def __init__(self, shape, dtype="float32"):
        self.shape = tuple(shape)
        self.dtype = dtype

    def __repr__(self):
        return f"Duck({self.shape}, {self.dtype!r})"


class NoShape:
    dtype = "float32"


class NoDtype:
    shape = (2,)


class Holder:
    """a mutable argument: `{h.k}` in a symbolic axis must see its CURRENT state"""

    def __init__(self, k):
        self.k = k


@jaxtyped(typechecker=None)
def in_call_context(n, m, body, h=None, *extra, kw=7, **opts):
    """A jaxtyped call whose arguments are visible to `{n}`/`{m}`/`{h.k}`/`{len(extra)}`/`{kw}`/`{len(opts)}` in
    symbolic axes - including the default `kw` and the (possibly EMPTY) `*extra` / `**opts`."""
    return body()


def call_args_model(n, m, h=None, extra=(), opts=None):
    """what the documented language means by 'the current call's arguments' for in_call_context"""
    return {"n": n, "m": m, "h": h, "extra": tuple(extra), "kw": 7, "opts": dict(opts or {})}


def in_block_context(body):
    with jaxtyped("context"):
        return body()


def internal_memo():
    """White-box (optional): the four memo dicts, or None if the attachment point is gone."""
    try:
        from jaxtyping._storage import get_shape_memo

        return get_shape_memo()
    except Exception:
        return None


def exec_src(src, ns, filename="<jtv-generated>"):
    """exec generated source WITHOUT inheriting this package's `from __future__ import
    annotations` (which would stringify every annotation of the generated function)."""
    exec(compile(src, filename, "exec", dont_inherit=True), ns)
    return ns


def temporaries_probe(rec, prop, rounds=24):
    """Inside ONE open scope, the same annotation object is asked about a long series of short-lived values: each is
    created, checked and dropped, so CPython hands its address (its id()) to the next one.  A verdict belongs to the
    value: whatever was decided about an object that has since died says nothing about the newcomer.
    Array annotation, PyTree-of-arrays annotation and a structured PyTree with a `?` axis; counts id() reuse seen."""
    import jaxtyping

    N = np.ndarray
    Vec = jaxtyping.Float[N, "jtvt"]
    Tree = jaxtyping.PyTree[jaxtyping.Float[N, "jtvu"]]
    Q = jaxtyping.PyTree[jaxtyping.Float[N, "?jtvq 2"], "JTVT"]

    def fresh(shape, dtype="float32"):
        return np.zeros(shape, dtype=dtype)  # never cached: really a new object each time

    def body():
        out = []
        seen_ids = set()
        reused = 0
        for k in range(rounds):
            # --- plain arrays against one annotation object
            a = fresh((3,))
            out.append(("arr-good", check(a, Vec), "ok"))
            i = id(a)
            del a
            b = fresh((4,)) if k % 2 else fresh((3,), "int32")
            reused += id(b) == i or id(b) in seen_ids
            seen_ids.add(i)
            out.append(("arr-bad", check(b, Vec), "no"))
            del b
            # --- containers against one PyTree annotation
            t = [fresh((5,)), fresh((5,))]
            out.append(("tree-good", check(t, Tree), "ok"))
            i = id(t)
            del t
            u = [fresh((5,)), fresh((6,))] if k % 2 else [fresh((5,)), fresh((5,), "int32")]
            reused += id(u) == i
            out.append(("tree-bad", check(u, Tree), "no"))
            del u
            # --- structured tree with a per-leaf '?' axis: leaf 0 has 3 rows, leaf 1 has 5, in every tree of the scope
            g = (fresh((3, 2)), fresh((5, 2)))
            out.append(("qtree-good", check(g, Q), "ok"))
            i = id(g)
            del g
            h = (fresh((3, 2)), fresh((6, 2))) if k % 2 else (fresh((3, 2)), fresh((5, 3)))
            reused += id(h) == i
            out.append(("qtree-bad", check(h, Q), "no"))
            del h
        return out, reused

    out, reused = in_block_context(body)
    rec.count("temporaries.checks", len(out))
    rec.count("temporaries.id_reuse_observed", int(reused))
    for idx, (what, got, want) in enumerate(out):
        if got != want:
            rec.violation("identity", {"temporaries_probe": what, "index": idx, "property": prop}, f"short-lived values in one scope, check #{idx} ({what}): {got}, expected {want} - the value was judged by what an earlier, dead object of the same address looked like" if want == "no" else f"short-lived values in one scope, check #{idx} ({what}): {got}, expected {want}", mechanism=f"temporary-{what}-{got}")
            return False
    return True


_ERRFMT_SRC = '''
import numpy as np
from jaxtyping import Float, jaxtyped, config, TypeCheckError
N = np.ndarray
LOG = []
def A(n):
    return np.zeros((n,), dtype="float32")
@jaxtyped(typechecker=CHECKER)
def inner(x: Float[N, "a"], y: Float[N, "a"]):
    LOG.append("inner-body-ran")
    return "inner-ret"
class CallsBack:
    """an argument whose repr - which the library prints in its error message - itself uses decorated code"""
    def __repr__(self):
        LOG.append("repr")
        try:
            inner(A(2), A(3))
            LOG.append("inner-ill-typed-accepted")
        except TypeCheckError:
            LOG.append("inner-ill-typed-rejected")
        LOG.append(("inner-well-typed", inner(A(2), A(2))))
        return "CallsBack()"
class SwitchesOff:
    """an argument whose repr switches checking off (config.update is documented to take effect before the next call)"""
    def __repr__(self):
        LOG.append("repr")
        config.update("jaxtyping_disable", True)
        return "SwitchesOff()"
@jaxtyped(typechecker=CHECKER)
def outer(x: Float[N, "a"], y: Float[N, "a"], z: object = None):
    LOG.append("outer-body-ran")
    return "outer-ret"
def scenario(kind):
    del LOG[:]
    try:
        outer(A(2), A(3), CallsBack() if kind == "calls-back" else SwitchesOff())
        LOG.append("outer-ill-typed-accepted")
    except TypeCheckError as e:
        LOG.append("outer-ill-typed-rejected")
    # afterwards, at ordinary level
    try:
        LOG.append(("after", outer(A(2), A(3))))
    except TypeCheckError:
        LOG.append(("after", "rejected"))
    finally:
        config.update("jaxtyping_disable", False)
    try:
        LOG.append(("after-switch-on", outer(A(2), A(3))))
    except TypeCheckError:
        LOG.append(("after-switch-on", "rejected"))
    return list(LOG)
'''


def error_formatting_probe(rec, prop):
    """What happens WHILE the library formats the message of a TypeCheckError (it prints the arguments, i.e. runs user
    __repr__ code): decorated calls made from there are checked like any other, and a config.update made from there
    sticks.  Both typecheckers."""
    import beartype
    import typeguard

    for cname, checker in (("typeguard", typeguard.typechecked), ("beartype", beartype.beartype)):
        ns = {"CHECKER": checker}
        exec_src(_ERRFMT_SRC, ns)
        for kind, want in (
            ("calls-back", ["repr", "inner-ill-typed-rejected", "inner-body-ran", ("inner-well-typed", "inner-ret"), "outer-ill-typed-rejected", ("after", "rejected"), ("after-switch-on", "rejected")]),
            ("switches-off", ["repr", "outer-ill-typed-rejected", "outer-body-ran", ("after", "outer-ret"), ("after-switch-on", "rejected")]),
        ):
            got = ns["scenario"](kind)
            g = [tuple(e) if isinstance(e, list) else e for e in got]
            # fold repeated repr blocks
            block = want[: want.index("outer-ill-typed-rejected")]
            i = 0
            folded = []
            while g[i : i + len(block)] == block:
                folded = list(block)
                i += len(block)
            folded += g[i:]
            rec.count("error_formatting.scenarios")
            rec.case(("error-formatting", cname, kind), True)
            if folded != want:
                mech = "call-made-while-formatting-an-error-not-checked" if kind == "calls-back" else "config-update-made-while-formatting-an-error-lost"
                rec.violation("during-error-formatting", {"error_formatting_probe": kind, "checker": cname, "property": prop, "log": [list(e) if isinstance(e, tuple) else e for e in got]}, f"[{cname}] {kind}: observed {got}, expected {want} (repr block possibly repeated)", mechanism=mech)
                return False
    return True


# ---- array types whose instances are decided per VALUE and over TIME (module level: picklable by reference)
import abc as _abc
import typing as _typing


def _mk_pool():
    g = globals()
    for i in range(48):
        for base, kind in (("JtvAbstractTensor", "abc"), ("JtvBackendTensor", "plain")):
            name = f"{base}{i}"
            if kind == "abc":
                cls = _abc.ABCMeta(name, (), {"__module__": __name__, "__qualname__": name})
            else:
                cls = type(name, (), {"__module__": __name__, "__qualname__": name, "shape": (4,), "dtype": "float32"})
            g[name] = cls


_mk_pool()
_pool_next = [0]


@_typing.runtime_checkable
class JtvHasShapeAndDtype(_typing.Protocol):
    shape: tuple
    dtype: str


class JtvLazy:
    """has a dtype from the start and a shape only once loaded"""

    def __init__(self):
        self.dtype = "float32"

    def load(self):
        self.shape = (2, 3)


class JtvBox:
    pass


def array_type_membership_probe(rec, prop, copies=None):
    """'x is an instance of the array type' is a fact about the value x at the time of the check, exactly as Python's
    own isinstance(x, ArrayType) says - not about type(x), and not about what an earlier value of the same type was:
    weakref proxies (one type, referents of different classes), a runtime-checkable protocol with data members (an
    object that becomes an instance later), an ABC with which a class is registered later in the process.
    `copies(ann)` (optional) -> list of (label, copy of the annotation): every copy must answer like the original."""
    import weakref

    import jaxtyping

    N = np.ndarray
    i = _pool_next[0]
    _pool_next[0] += 1
    if i >= 48:
        return True
    Abs, Backend = globals()[f"JtvAbstractTensor{i}"], globals()[f"JtvBackendTensor{i}"]
    arr = np.zeros(3, dtype="float32")
    box = JtvBox()
    lazy = JtvLazy()
    tensor = Backend()
    anns = {"ndarray": jaxtyping.Float[N, "n"], "protocol": jaxtyping.Float[JtvHasShapeAndDtype, "a b"], "abc": jaxtyping.Float[Abs, "n"]}
    others = {k: (copies(a) if copies else []) for k, a in anns.items()}
    steps = [
        ("proxy of a non-array", "ndarray", lambda: weakref.proxy(box), None),
        ("proxy of an ndarray", "ndarray", lambda: weakref.proxy(arr), None),
        ("proxy of a non-array, again", "ndarray", lambda: weakref.proxy(box), None),
        ("lazy tensor before it has a shape", "protocol", lambda: lazy, None),
        ("lazy tensor once loaded", "protocol", lambda: lazy, lazy.load),
        ("backend tensor before its class is registered with the abstract array type", "abc", lambda: tensor, None),
        ("backend tensor after registration", "abc", lambda: tensor, lambda: Abs.register(Backend)),
        ("another backend tensor after registration", "abc", lambda: Backend(), None),
    ]
    for what, key, mk, before in steps:
        if before:
            before()
        x = mk()
        ann = anns[key]
        want = "ok" if isinstance(x, ann.array_type) else "no"  # (shape and dtype fit in every step)
        got = check(x, ann)
        rec.count("array_type_membership.steps")
        rec.case(("array-type-membership", what), True)
        if got != want:
            rec.violation("array-type", {"array_type_membership": what, "property": prop}, f"{what}: Python's isinstance(x, {ann.array_type.__name__}) is {want == 'ok'}, the annotation answers {got}", mechanism="instance-of-array-type-" + ("wrongly-rejected" if want == "ok" else "wrongly-accepted"))
            return False
        for label, cp in others[key]:
            g2 = check(x, cp)
            rec.count("array_type_membership.copies_compared")
            if g2 != got:
                rec.violation("meaning-changed", {"array_type_membership": what, "copy": label, "property": prop}, f"{what}: the original annotation answers {got}, its {label} copy {g2}", mechanism="copy-differs-on-array-type-membership")
                return False
    return True

"""Generated array-annotated signatures and argument tuples (for C02, C13, C17)."""

from __future__ import annotations

from ..model import dims as M
from . import annotations as G

NAMES = ("a", "b", "c")


def gen_signature(rng, max_params=5, p_ret=0.7, allow_symbolic=True, p_variadic=0.35):
    """-> {'params': [[name, spec], ...], 'ret': spec|None}
    Symbolic axes only mention names that an earlier parameter binds with a plain
    (non-#) named axis, as the quantifier of C02 demands."""
    n = rng.choice((1, 2, 2, 3, 3, 4, 5)[: max_params + 2])
    n = min(n, max_params)
    params = []
    bound = set()
    ret = None
    for i in range(n + 1):
        is_ret = i == n
        if is_ret and rng.random() > p_ret:
            ret = None
            break
        toks = []
        k = rng.choice((0, 1, 1, 2, 2, 3, 4))
        var_at = rng.randint(0, k) if rng.random() < p_variadic else None
        newly = set()
        if allow_symbolic and bound and rng.random() < 0.15:
            # an annotation without any named axis: only symbolic / fixed axes (it binds nothing, it only reads)
            cands = [e for e in ("a+1", "a-1", "2*a", "a*b", "a+b", "b-a", "a+b+c", "c**2", "a//2+b") if _names_of(e) <= bound]
            if cands:
                toks = [rng.choice(cands) for _ in range(rng.choice((1, 1, 2)))]
                if rng.random() < 0.3:
                    toks.insert(rng.randint(0, len(toks)), str(rng.choice((2, 3))))
                spec = " ".join(toks)
                if is_ret:
                    ret = spec
                else:
                    params.append([f"x{i}", spec])
                continue
        for j in range(k + (1 if var_at is not None else 0)):
            if var_at is not None and j == var_at:
                r = rng.random()
                if r < 0.15:
                    toks.append("...")
                else:
                    toks.append(G._mods(rng, "*" + ("#" if rng.random() < 0.45 else "")) + rng.choice(("v", "w", "v", "b")))
                continue
            r = rng.random()
            if r < 0.55:
                nm = rng.choice(NAMES)
                b = rng.random() < 0.3
                toks.append(("#" if b else "") + nm)
                if not b:
                    newly.add(nm)
            elif r < 0.68:
                toks.append(("#" if rng.random() < 0.3 else "") + str(rng.choice((1, 2, 3, 4))))
            elif r < 0.75:
                toks.append("_")
            elif allow_symbolic and bound and r < 0.95:
                cands = [e for e in ("a+1", "a-1", "2*a", "a*b", "a+b", "b-a", "max(a,b)", "a+b+c", "c**2", "a//2+b")
                         if _names_of(e) <= bound]
                if cands:
                    toks.append(("#" if rng.random() < 0.2 else "") + rng.choice(cands))
                else:
                    toks.append(rng.choice(NAMES))
            else:
                nm = rng.choice(NAMES)
                toks.append(nm)
                newly.add(nm)
        spec = " ".join(toks)
        if is_ret:
            ret = spec
        else:
            params.append([f"x{i}", spec])
            bound |= newly
    return {"params": params, "ret": ret}


def _names_of(expr):
    import re

    return set(re.findall(r"[abc]\b", expr)) - {"max"}


def gen_values(rng, sig, p_perturb=0.45):
    """shapes for every parameter and the return: consistent under the model's greedy walk,
    then one of them perturbed with probability p_perturb. -> (shapes list, ret shape|None)"""
    s, v = {}, {}
    shapes = []
    specs = [p[1] for p in sig["params"]] + ([sig["ret"]] if sig["ret"] is not None else [])
    for spec in specs:
        toks = M.parse(spec)
        sh = G.gen_shape_for(rng, toks, s, v, {}, p_perturb=0.0, max_rank=5)
        vd, why, s2, v2 = M.match(toks, sh, s, v, {})
        if vd == "ok":
            s, v = s2, v2
        shapes.append(list(sh))
    if rng.random() < p_perturb:
        # perturb one value; position uniform, biased towards later parameters and the return
        i = rng.randrange(len(shapes))
        if rng.random() < 0.5:
            i = len(shapes) - 1 - rng.randrange(min(2, len(shapes)))
        sh = shapes[i]
        k = rng.random()
        if sh and k < 0.7:
            p = rng.randrange(len(sh))
            sh[p] = rng.choice([z for z in (0, 1, 2, 3, 4, 5) if z != sh[p]])
        elif k < 0.85:
            sh.insert(rng.randint(0, len(sh)), rng.choice((1, 2, 3)))
        elif sh:
            del sh[rng.randrange(len(sh))]
    if sig["ret"] is not None:
        return shapes[:-1], shapes[-1]
    return shapes, None

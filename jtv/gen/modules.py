"""Generators of Python modules for the import-hook checks (C10, C11, C18)."""

from __future__ import annotations

DECOS = ["@dec", "@dec2(1, k=2)", "@ns.attr", "@(lambda f: f)", "@dec\n@dec2(0)", "@functools.wraps(print)", "@property"]
FUTURES = ["from __future__ import annotations", "from __future__ import division, print_function", "from __future__ import (\n    generator_stop,\n)", "from __future__ import annotations as _a"]


def _ind(lines, n):
    """indent every physical line (snippets may span several lines)"""
    pad = "    " * n
    out = []
    for l in lines:
        for phys in l.split("\n"):
            # a line marked with NUL stays at column 0 however deeply its statement is nested (legal inside brackets
            # and triple-quoted strings); the marker is removed when the module text is assembled
            out.append(phys if phys.startswith("\x00") else (pad + phys if phys else phys))
    return out


def gen_def(rng, depth, is_async=False, in_class=False):
    name = rng.choice(("f", "g", "helper", "_private", "ünïcode", "T0", "jaxtyped", "jaxtyping"))
    decos = []
    if rng.random() < 0.4:
        decos = rng.choice(DECOS).split("\n")
        if not in_class:
            decos = [d for d in decos if d != "@property"]
    args = rng.choice(("", "x", "x, y=1", "x, /, y, *, z=2", "*args, **kwargs", "self" if in_class else "a", "x: int, y: 'str' = 'a'", "x=(1,\n        2)"))
    ret = rng.choice(("", "", " -> int", " -> 'Forward'", " -> list[int]"))
    head = f"{'async ' if is_async else ''}def {name}({args}){ret}:"
    body = gen_body(rng, depth + 1, in_async=is_async)
    if rng.random() < 0.2:
        body = ['"""docstring of the function"""'] + body
    out = decos + [head] + _ind(body, 1)
    if rng.random() < 0.25:
        # the definition's last physical line ends LEFT of the column of its `def` (a closing bracket or the end of a
        # triple-quoted string at column 0 inside a nested / indented definition)
        if rng.random() < 0.5:
            out += _ind(["tail = (1,", "2"], 1) + ["\x00)"]
        else:
            out += _ind(["tail = '''text"], 1) + ["\x00'''"]
    return out


def gen_class(rng, depth):
    decos = []
    if rng.random() < 0.4:
        decos = rng.choice(("@dataclasses.dataclass", "@dec", "@dec2(3)\n@dec")).split("\n")
    bases = rng.choice(("", "(Base)", "(Base, metaclass=Meta)", "(*bases, **kw)", "[T]"))
    head = f"class {rng.choice(('C', 'Inner', 'Ünï', 'jaxtyped'))}{bases}:"
    body = []
    if rng.random() < 0.3:
        body.append('"""class docstring"""')
    body.append("x: int = 1")
    for _ in range(rng.choice((1, 2))):
        k = rng.random()
        if k < 0.6:
            body += gen_def(rng, depth + 1, in_class=True)
        elif k < 0.75:
            body += gen_def(rng, depth + 1, is_async=True, in_class=True)
        elif k < 0.9 and depth < 3:
            body += gen_class(rng, depth + 1)
        else:
            body += ["@property", "def prop(self):", "    return lambda q: q + 1"]
    return decos + [head] + _ind(body, 1)


def gen_body(rng, depth, in_async=False):
    out = []
    n = rng.choice((1, 1, 2, 3))
    for _ in range(n):
        k = rng.random()
        if depth >= 4:
            k = 0.99
        if k < 0.18:
            out += gen_def(rng, depth)
        elif k < 0.24:
            out += gen_def(rng, depth, is_async=True)
        elif k < 0.32:
            out += gen_class(rng, depth)
        elif k < 0.40:
            out += ["if cond:"] + _ind(gen_body(rng, depth + 1, in_async), 1) + ["elif other:"] + _ind(gen_body(rng, depth + 1, in_async), 1) + ["else:"] + _ind(gen_body(rng, depth + 1, in_async), 1)
        elif k < 0.47:
            out += ["try:"] + _ind(gen_body(rng, depth + 1, in_async), 1) + ["except (ValueError, KeyError) as e:"] + _ind(gen_body(rng, depth + 1, in_async), 1) + ["finally:"] + _ind(["pass"], 1)
        elif k < 0.53:
            out += ["with open(p) as fh, ctx():"] + _ind(gen_body(rng, depth + 1, in_async), 1)
        elif k < 0.58:
            out += ["match subject:", "    case [a, b]:"] + _ind(gen_body(rng, depth + 1, in_async), 2) + ["    case {'k': v} if v:"] + _ind(gen_body(rng, depth + 1, in_async), 2) + ["    case _:", "        pass"]
        elif k < 0.63:
            out += ["for i in range(3):"] + _ind(gen_body(rng, depth + 1, in_async), 1) + ["else:", "    pass"]
        elif k < 0.67:
            out += ["while (n := next_value()) > 0:"] + _ind(gen_body(rng, depth + 1, in_async), 1)
        elif k < 0.71 and in_async:
            out += ["async with actx() as c:"] + _ind(gen_body(rng, depth + 1, True), 1) + ["async for it in agen():", "    await it"]
        elif k < 0.75:
            out += ["fn = lambda a, b=2, *c, **d: (a, b, c, d)", "gen = (lambda: (yield))", "fn2 = lambda p=1, q='two', *, r=[3], s=None: p"]
        elif k < 0.79:
            out += ["try:", "    pass", "except* OSError as eg:", "    pass"]
        elif k < 0.83 and depth > 0:
            out += [rng.choice(("pass", "assert x, 'msg'", "del tmp", "nonlocal_free = 1"))]
        else:
            out += [rng.choice(("x = 1", "y: int = 2", "z = f'{x!r:>{w}}'", "a, *b = 1, 2, 3", "print('hi', end='')", "x = (1 +\n     2)", "s = 'single'", "v = [i for i in range(3) if i]", "w = {**d, 'k': [*l]}", "@dec\ndef one_liner(): pass", "if x: y = 1; z = 2", "q = a if b else c", "t = x @ y", "lambda: 0", "...", "'a string statement'", "x = 1  # comment", "def inline(a): return a", "class E: pass", "# type: this comment is prose, not a PEP 484 type comment\npass", "d = {'k': 1,  # type: also prose\n     'j': 2}", "if x:  # type: prose after a header\n    pass", "y = []  # type: list[int]"))]
    return out


def gen_static_module(rng):
    """a module exercising the syntax the transformer walks over; it only has to compile"""
    head = []
    if rng.random() < 0.15:
        head.append("#!/usr/bin/env python")
    if rng.random() < 0.1:
        head.append("# -*- coding: utf-8 -*-")
    if rng.random() < 0.55:
        head.append(rng.choice(('""', "''''''", '"""Module docstring."""', "'''Multi\nline\ndocstring'''", '"doc"', "r'raw doc'")))
    if rng.random() < 0.2:
        head.append("# a comment between docstring and futures")
        head.append("")
    nf = rng.choice((0, 0, 1, 1, 2))
    for f in rng.sample(FUTURES, nf):
        head.append(f)
    if rng.random() < 0.1 and not nf:
        head.append("1")  # a non-string constant expression statement at the top
    if rng.random() < 0.1 and not nf:
        head.append("'another string'")
    body = []
    if rng.random() < 0.9:
        body = ["import os, sys", "import functools, dataclasses", "from . import sibling" if rng.random() < 0.2 else "import typing"]
        for _ in range(rng.choice((1, 2, 3, 4))):
            body += gen_body(rng, 0)
    elif rng.random() < 0.4:
        # classes only - not a single `def` in the file (field-only dataclasses, exception hierarchies, enums)
        body = ["import dataclasses, enum", "@dataclasses.dataclass", "class Fields:", "    x: int", "    y: 'str' = 'a'", "class MyError(Exception):", "    pass", "class Colour(enum.Enum):", "    RED = 1", "    class Nested:", "        z = 2"]
    elif rng.random() < 0.5:
        body = []  # nothing but the header
    else:
        body = gen_def(rng, 0)  # a def is the first statement after the header
    lines = head + body
    if rng.random() < 0.25 and lines:
        # characters that str.splitlines() treats as line ends but Python source does not: a form feed on a line of
        # its own (the classic page break), and FS / NEL / LS / PS inside string literals and comments
        k = rng.randint(0, len(lines))
        extra = rng.choice(["\x0c", "\x0c", "# page\x0cbreak in a comment", "_jtv_odd = 'a\x1cb\x85c\u2028d\u2029e\x0bf'", "# nel\x85 and ls\u2028 in a comment"])
        if all(not (l.startswith(" ") or l.startswith("\t")) for l in lines[k : k + 1]) and not (k > 0 and lines[k - 1].rstrip().endswith((":", "\\", ","))) and not (k > 0 and lines[k - 1].startswith("@")):
            lines = lines[:k] + [extra] + lines[k:]
    src = ("\n".join(lines) + "\n").replace("\x00", "")
    if rng.random() < 0.1:
        src = src.replace("    ", "\t")
    return src


# ---------------------------------------------------------------------------- runnable


def gen_runnable_module(rng):
    """a module that runs: nested definitions with well-typed calls, prints, and possibly an
    exception raised at a known line deep inside nested functions"""
    L = []
    if rng.random() < 0.5:
        L.append('"""Runnable generated module."""')
    if rng.random() < 0.4:
        L.append("from __future__ import annotations")
    L += ["import functools", "", "def dec(f):", "    @functools.wraps(f)", "    def w(*a, **k):", "        print('dec', f.__name__)", "        return f(*a, **k)", "    return w", ""]
    raise_kind = rng.choice((None, None, "ValueError", "ZeroDivisionError", "KeyError"))
    L += [
        "def outer(x: int, y: int = 2) -> int:",
        "    def inner(a, *rest, k=1):",
        "        total = a + k",
        "        for r in rest:",
        "            total += r",
        "        return total",
        "    print('outer', x, y)",
        "    return inner(x, y, k=3)",
        "",
    ]
    if rng.random() < 0.7:
        L += ["@dec", "def decorated(v):", "    print('decorated', v)", "    return v * 2", ""]
    else:
        L += ["def decorated(v):", "    return v * 2", ""]
    L += [
        "class K:",
        "    z: int = 5",
        "    def m(self, q):",
        "        helper = lambda t: t + self.z",
        "        return helper(q)",
        "    @classmethod",
        "    def c(cls, q):",
        "        return cls.z + q",
        "    @staticmethod",
        "    def s(q):",
        "        return q",
        "    @property",
        "    def p(self):",
        "        return self.z",
        "",
    ]
    if rng.random() < 0.5:
        L += ["if True:", "    def conditional(u):", "        return u - 1", "else:", "    conditional = None", ""]
    else:
        L += ["try:", "    def conditional(u):", "        return u - 1", "except Exception:", "    raise", ""]
    L += ["async def coro(n):", "    def sync_inside(m):", "        return m + 1", "    return sync_inside(n)", ""]
    L += ["def gen(n):", "    for i in range(n):", "        yield i", ""]
    L += ["def deep(n):", "    def level1(n):", "        def level2(n):"]
    if raise_kind == "ValueError":
        L += ["            raise ValueError('deep failure')"]
    elif raise_kind == "ZeroDivisionError":
        L += ["            return 1 // (n - n)"]
    elif raise_kind == "KeyError":
        L += ["            return {}['missing']"]
    else:
        L += ["            return n"]
    L += ["        return level2(n)", "    return level1(n)", ""]
    calls = [
        "print(outer(1))",
        "print(outer(1, y=5))",
        "print(decorated(4))",
        "print(K().m(1), K.c(2), K.s(3), K().p)",
        "print(conditional(9))",
        "print(list(gen(3)))",
        "c = coro(1)\ntry:\n    c.send(None)\nexcept StopIteration as si:\n    print('coro', si.value)",
        "print(outer.__name__, outer.__doc__, decorated.__name__)",
        "print(sorted(n for n in ('outer', 'decorated', 'K', 'gen') if n in globals()))",
    ]
    rng.shuffle(calls)
    L += calls[: rng.randint(3, len(calls))]
    # called by the harness AFTER the import has finished and the hook has been uninstalled: definitions nested in
    # functions (and local classes) are only created - and, in a hooked module, decorated - at that moment
    L += [
        "def make_local(q):",
        "    class Local:",
        "        w: int = 1",
        "        def m(self, t):",
        "            def innermost(u):",
        "                return u + self.w",
        "            return innermost(t)",
        "    return Local().m(q)",
        "",
        "def rerun():",
        "    print('rerun', outer(2), K().m(2), make_local(3), conditional(4), list(gen(2)))",
        "    return deep(5)",
        "",
    ]
    if rng.random() < 0.3:
        L += ["print(make_local(1))"]
    L += ["print(deep(3))"]
    return ("\n".join(L) + "\n").replace("\x00", "")

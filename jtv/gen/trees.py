"""Generators of PyTrees (Python values) over tuple/list/dict/None/namedtuple/custom node."""

from __future__ import annotations

import collections

from ..model import trees as T

Point = collections.namedtuple("Point", ["x", "y"])
Single = collections.namedtuple("Single", ["v"])


class Node:
    """Registered custom PyTree node; children + hashable aux data."""

    def __init__(self, children, aux="k"):
        self.children = list(children)
        self.aux = aux

    def __repr__(self):
        return f"Node({self.children!r}, {self.aux!r})"

    def __eq__(self, o):
        return type(o) is Node and o.children == self.children and o.aux == self.aux

    def __hash__(self):
        return hash((tuple(map(id, self.children)), self.aux))


_registered = False


def ensure_registered():
    global _registered
    if _registered:
        return
    import jax.tree_util as jtu

    jtu.register_pytree_node(Node, lambda n: (tuple(n.children), n.aux), lambda aux, ch: Node(ch, aux))
    T.CUSTOM.append(Node)
    _registered = True


def gen_tree(rng, leaf_fn, depth=3, fanout=3, p_leaf=0.35, kinds=None):
    """leaf_fn(rng) -> a leaf value. Returns a python value."""
    kinds = kinds or ("tuple", "tuple", "list", "dict", "none", "nt", "custom", "empty")
    if depth == 0 or rng.random() < p_leaf:
        return leaf_fn(rng)
    k = rng.choice(kinds)
    n = rng.randint(0 if k != "nt" else 2, fanout)
    kid = lambda: gen_tree(rng, leaf_fn, depth - 1, fanout, p_leaf + 0.15, kinds)
    if k == "tuple":
        return tuple(kid() for _ in range(n))
    if k == "list":
        return [kid() for _ in range(n)]
    if k == "dict":
        keys = rng.sample(["a", "b", "c", "d", "z"], n)
        return {kk: kid() for kk in keys}
    if k == "none":
        return None
    if k == "nt":
        if rng.random() < 0.5:
            return Point(kid(), kid())
        return Single(kid())
    if k == "custom":
        ensure_registered()
        return Node([kid() for _ in range(n)], rng.choice(("k", "j")))
    if k == "empty":
        return rng.choice(((), [], {}))
    raise AssertionError(k)


def map_leaves(x, f, is_leaf=None):
    """rebuild x with every leaf replaced by f(leaf) (pure python, mirrors model.trees)"""
    if is_leaf is not None and is_leaf(x):
        return f(x)
    ch = T.children(x)
    if ch is None:
        return f(x)
    tag, kids = ch
    new = [map_leaves(k, f, is_leaf) for k in kids]
    if tag[0] == "none":
        return None
    if tag[0] == "nt":
        return type(x)(*new)
    if tag[0] == "tuple":
        return tuple(new)
    if tag[0] == "list":
        return new
    if tag[0] == "dict":
        return dict(zip(tag[1], new))
    if tag[0] == "custom":
        return Node(new, x.aux)
    raise AssertionError(tag)


def describe(x):
    """JSON-able rendering of a tree (arrays as ['arr', shape, dtype])."""
    import numpy as np

    if isinstance(x, np.ndarray):
        return ["arr", list(x.shape), str(x.dtype)]
    ch = T.children(x)
    if ch is None:
        if hasattr(x, "shape") and hasattr(x, "dtype"):
            return ["arr", list(x.shape), str(x.dtype), type(x).__name__]
        return ["leaf", repr(x)]
    tag, kids = ch
    return [list(map(str, tag)), [describe(k) for k in kids]]


def rebuild(d):
    """inverse of describe for replay"""
    import ast

    from .. import real

    if d[0] == "arr":
        if len(d) > 3 and d[3] == "Duck":
            return real.Duck(d[1], d[2])
        return real.np_array(d[1], d[2])
    if d[0] == "leaf":
        return ast.literal_eval(d[1])
    tag, kids = d
    new = [rebuild(k) for k in kids]
    if tag[0] == "none":
        return None
    if tag[0] == "nt":
        from ..model.leaftypes import NodeArr

        from ..model import leaftypes as _LT

        classes = {"Point": Point, "Single": Single, "NodeArr": NodeArr}
        classes.update({c.__name__: c for c in _LT._NT_CLASSES.values()})
        return classes[tag[1]](*new)
    if tag[0] == "tuple":
        return tuple(new)
    if tag[0] == "list":
        return new
    if tag[0] == "dict":
        return dict(zip(ast.literal_eval(tag[1]), new))
    if tag[0] == "custom":
        ensure_registered()
        return Node(new, ast.literal_eval(tag[2]) if tag[2].startswith(("'", '"')) else tag[2])
    raise AssertionError(tag)

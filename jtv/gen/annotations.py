"""Generators of dim strings and of shapes aimed at them. Pure `random.Random`."""

from __future__ import annotations

from ..model import dims as M

NAMES = ("a", "b", "c")
VNAMES = ("v", "w", "v", "w", "a")  # "a" is also a single-axis name: separate namespaces, same spelling
SIZES = (0, 1, 1, 2, 2, 3, 3, 4, 5)
SYMBOLIC = (
    "a+1",
    "a-1",
    "2*a",
    "a*b",
    "a+b",
    "b-a",
    "a//2",
    "max(a,b)",
    "a+b+c",
    "{n}",
    "{n}+1",
    "a+{m}",
    "{n}*{m}",
    "c**2",
    "a%2+1",
    "q+1",  # q is never bound by the generators: always an unbound name
    "n+1",  # n, m are ARGUMENTS of the call context, not axes: without braces they are unbound names
    "a*m",
    "n",
    "{h.k}",  # an attribute of a MUTABLE argument: must be read at every check, never cached
    "{h.k}+a",
    "{len(extra)}+1",  # *extra / **opts / the defaulted kw are arguments of the call too - also when nothing was passed for them
    "a+{len(opts)}",
    "{kw}",
)


def _mods(rng, chars):
    chars = list(chars)
    rng.shuffle(chars)
    return "".join(chars)


def gen_token(rng, allow_symbolic=True, allow_tree=False, variadic_ok=True, names=NAMES, vnames=VNAMES):
    r = rng.random()
    doc = ""
    if rng.random() < 0.08:
        doc = rng.choice(("rows=", "n=", "d_1="))
    bc = rng.random() < 0.3
    tree = allow_tree and rng.random() < 0.3
    if variadic_ok and r < 0.16:
        if rng.random() < 0.2:
            return "..."
        if rng.random() < 0.1:
            return doc + _mods(rng, "*_")
        return _place_doc(rng, doc, _mods(rng, "*" + ("#" if bc else "") + ("?" if tree else "")), rng.choice(vnames))
    if r < 0.5:
        return _place_doc(rng, doc, _mods(rng, ("#" if bc else "") + ("?" if tree else "")), rng.choice(names))
    if r < 0.68:
        return _place_doc(rng, doc, "#" if bc else "", str(rng.choice((0, 1, 2, 3, 4, 5))))
    if r < 0.78:
        if rng.random() < 0.5:
            return "_"
        return doc + "_" + rng.choice(("x", "batch", "a"))
    if allow_symbolic and r < 0.93:
        return _place_doc(rng, doc, "#" if bc else "", rng.choice(SYMBOLIC))
    return _place_doc(rng, doc, _mods(rng, ("#" if bc else "")), rng.choice(names))


def _place_doc(rng, doc, mods, base):
    if not doc:
        return mods + base
    # 'name=' may sit anywhere among the modifiers
    k = rng.randint(0, len(mods))
    return mods[:k] + doc + mods[k:] + base


WS = (" ", " ", " ", "  ", "\t", " \n ", "   ")


def gen_spec(rng, max_axes=5, p_variadic=0.45, allow_symbolic=True, allow_tree=False, names=NAMES, vnames=VNAMES):
    n = rng.choice((0, 1, 1, 2, 2, 2, 3, 3, 4, 5)[: max_axes + 5])
    n = min(n, max_axes)
    toks = []
    want_var = rng.random() < p_variadic
    ivar = rng.randint(0, n) if want_var else None
    for i in range(n + (1 if want_var else 0)):
        if want_var and i == ivar:
            # force a variadic token
            while True:
                t = gen_token(rng, allow_symbolic, allow_tree, True, names, vnames)
                if t == "..." or "*" in t.split("=")[-1] or "*" in t:
                    break
            toks.append(t)
        else:
            toks.append(gen_token(rng, allow_symbolic, allow_tree, False, names, vnames))
    lead = rng.choice(("", "", "", " ", "\t"))
    trail = rng.choice(("", "", "", " ", "\n"))
    out = lead
    for i, t in enumerate(toks):
        if i:
            out += rng.choice(WS)
        out += t
    return out + trail


def gen_shape_for(rng, toks, single, variadic, args, max_rank=5, p_perturb=0.4, label=None):
    """A shape derived from the annotation and the current bindings (so that it has a
    good chance to match), then perturbed with probability p_perturb."""
    shape = []
    s1 = dict(single)
    for t in toks:
        if t.kind == "anon":
            shape.append(rng.choice(SIZES))
        elif t.kind == "fixed":
            shape.append(max(t.size, 0))
        elif t.kind == "named":
            nm = (label or "") + t.name if t.tree else t.name
            if nm in s1:
                shape.append(s1[nm])
            else:
                s = rng.choice(SIZES)
                shape.append(s)
                s1[nm] = s
        elif t.kind == "symbolic":
            try:
                v = M._eval_symbolic(t.name, s1, args)
                shape.append(v if isinstance(v, int) and 0 <= v <= 30 else rng.choice(SIZES))
            except Exception:
                shape.append(rng.choice(SIZES))
        elif t.kind == "anonvar":
            shape.extend(rng.choice(SIZES) for _ in range(rng.choice((0, 1, 1, 2))))
        elif t.kind == "namedvar":
            nm = (label or "") + t.name if t.tree else t.name
            if nm in variadic and rng.random() < 0.8:
                prev = list(variadic[nm][1])
                if (t.bcast or variadic[nm][0]) and rng.random() < 0.6:
                    # a broadcast-compatible variant: drop leading axes, turn some to 1,
                    # or (if previous use was '#') grow
                    if prev and rng.random() < 0.4:
                        prev = prev[rng.randint(0, len(prev)) :]
                    prev = [1 if rng.random() < 0.3 else x for x in prev]
                    if variadic[nm][0] and rng.random() < 0.4:
                        prev = [rng.choice(SIZES) if x == 1 else x for x in prev]
                        if rng.random() < 0.3:
                            prev = [rng.choice(SIZES)] + prev
                shape.extend(prev)
            else:
                shape.extend(rng.choice(SIZES) for _ in range(rng.choice((0, 1, 1, 2, 2, 3))))
        if t.bcast and t.kind != "namedvar" and rng.random() < 0.35:
            shape[-1] = 1
    if rng.random() < p_perturb and True:
        k = rng.random()
        if shape and k < 0.6:
            i = rng.randrange(len(shape))
            shape[i] = rng.choice([s for s in SIZES if s != shape[i]])
        elif k < 0.8 and len(shape) < max_rank + 1:
            shape.insert(rng.randint(0, len(shape)), rng.choice(SIZES))
        elif shape:
            del shape[rng.randrange(len(shape))]
    return tuple(shape[: max_rank + 1])


def gen_random_shape(rng, max_rank=5):
    return tuple(rng.choice(SIZES) for _ in range(rng.randint(0, max_rank)))

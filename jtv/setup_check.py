"""setup_cmd: nothing to build; verify that what the checks import is present offline."""
import importlib
import sys

need = ["numpy", "jax", "ml_dtypes", "typeguard", "beartype", "cloudpickle", "IPython", "pytest", "equinox", "wadler_lindig", "jaxtyping"]
missing = []
for m in need:
    try:
        importlib.import_module(m)
    except Exception as e:  # noqa
        missing.append(f"{m}: {type(e).__name__}: {e}")
if missing:
    print("missing:", missing)
    sys.exit(1)
import jaxtyping
print("jtv setup ok; jaxtyping from", jaxtyping.__file__)

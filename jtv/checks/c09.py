"""C09 — PyTree structure names bind, compose, prefix and suffix exactly as documented."""

from __future__ import annotations

import random
import warnings

from .. import real
from ..gen import trees as GT
from ..model import trees as TM

LEVEL = "exploration"
TECHNIQUE = "runtime monitoring: pure-Python structure algebra (struct/compose/prefix/suffix) as reference model for isinstance(x, PyTree[int, form]) after binding T and S in a context; grammar fuzzer + 10-line validator for structure strings"
LEVEL_TEXT = (
    "Held on every generated triple (t, s, candidate) x structure form explored, candidates half constructed to match "
    "by composition and then perturbed, and on every fuzzed structure string. Sampling, not proof."
)
LEVEL_NOTE = "Trusts jtv/model/trees.py (no jax.tree_util) and that int leaves make the structure the only deciding factor."
RULE = (
    "one case = (tree bound to T, tree bound to S, candidate, form among T / S T / T S / T T / T ... / ... T / S T ... / "
    "... S T / unbound-name variants) or one fuzzed structure string; non-trivial = candidate depth>=2 or form composite; "
    "distinct by (tree descriptions, form) / by string."
)
ASSUMPTIONS = ["open corners not judged: bare '...', '...' on both ends, non-string structure arguments"]
CASES = {"quick": 8000, "thorough": 120000}
NSHARDS = 16
FORMS = ("T", "T", "S T", "T S", "T T", "T ...", "... T", "S T ...", "... S T", "S", "U", "U T", "T U ...", "... U")


def respell(rng, form):
    """the same structure string with other (insignificant) whitespace: leading / trailing blanks, several blanks or a
    tab between the names"""
    if rng.random() < 0.6:
        return form
    sep = rng.choice((" ", "  ", "\t", " \t "))
    return rng.choice(("", " ", "\t")) + sep.join(form.split()) + rng.choice(("", " ", "  "))


def shards(tier):
    return [{"i": i} for i in range(NSHARDS)]


def required_counters(tier):
    return {
        "verdict.ok": 500,
        "verdict.no": 500,
        "verdict.annot": 100,
        "form.compose": 300,
        "form.prefix": 300,
        "form.suffix": 300,
        "form.plain.bound": 200,
        "cand.none_nodes": 50,
        "cand.empty_containers": 50, "leaftype.pair": 300,
        "strings.fuzzed": 1000,
        "strings.valueerror": 200,
        "strings.accepted": 200,
    }


INT = lambda r: r.choice((0, 1, 2))


def small_tree(rng, depth=2):
    return GT.gen_tree(rng, INT, depth=depth, fanout=3, p_leaf=0.3, kinds=("tuple", "list", "dict", "none", "nt", "custom", "empty", "tuple"))


def perturb(rng, x):
    """change the structure of x somewhere"""
    lv = TM.leaves(x)
    if not lv or rng.random() < 0.2:
        return rng.choice(([x], (x, 0), {"k": x}, None, 0))
    target = rng.randrange(len(lv))
    cnt = [0]

    def f(leaf):
        i = cnt[0]
        cnt[0] += 1
        if i == target:
            return rng.choice(((leaf,), [leaf, leaf], {"z": leaf}, None, ()))
        return leaf

    return GT.map_leaves(x, f)


def has(x, pred):
    if pred(x):
        return True
    ch = TM.children(x)
    return bool(ch) and any(has(k, pred) for k in ch[1])


def expected(form, bound, sx):
    """-> 'ok'|'no'|'annot', and new binding or None"""
    pieces = form.split()
    if len(pieces) == 1 and pieces[0] != "...":
        n = pieces[0]
        if n in bound:
            return ("ok" if bound[n] == sx else "no"), None
        return "ok", (n, sx)
    prefix = suffix = False
    if pieces[0] == "...":
        pieces, suffix = pieces[1:], True
    elif pieces[-1] == "...":
        pieces, prefix = pieces[:-1], True
    named = TM.LEAF
    for p in pieces:
        if p not in bound:
            return "annot", None
        named = TM.compose(named, bound[p])
    if prefix:
        return ("ok" if TM.is_prefix(named, sx) else "no"), None
    if suffix:
        return ("ok" if TM.is_suffix(named, sx) else "no"), None
    return ("ok" if named == sx else "no"), None


def run_case(rec, rng, rngkey=None):
    import jaxtyping

    t = small_tree(rng, rng.choice((1, 2, 2)))
    s = small_tree(rng, rng.choice((1, 2)))
    form = rng.choice(FORMS)
    isl = lambda y: isinstance(y, int)
    # candidate
    r = rng.random()
    if r < 0.55:
        pieces = [p for p in form.split() if p != "..."]
        base = 0
        for p in pieces:
            sub = {"T": t, "S": s}.get(p, (0,))
            base = GT.map_leaves(base, lambda _: sub, is_leaf=isl)
        x = base
        if form.endswith("..."):
            x = GT.map_leaves(x, lambda l: small_tree(rng, 1) if rng.random() < 0.5 else l, is_leaf=isl)
        elif form.startswith("..."):
            outer = small_tree(rng, rng.choice((0, 1, 2)))
            x = GT.map_leaves(outer, lambda _: base, is_leaf=isl)
        if rng.random() < 0.35:
            x = perturb(rng, x)
    elif r < 0.8:
        x = perturb(rng, rng.choice((t, s)))
    else:
        x = small_tree(rng, 3)
    # leaf type of the CANDIDATE annotation: int (structure decides alone), Any, or a container
    # leaf type tuple[int, int] - then the candidate's leaves are 2-tuples, which are leaves for
    # the leaf-type-aware flattening but would be containers for a naive one
    lt = rng.choice(("int", "int", "int", "any", "pair", "pair"))
    if lt == "any" and rng.random() < 0.5:
        # a registered PyTree node that LOOKS like an array (a NamedTuple with .shape and .dtype, like a quantised
        # or sparse wrapper): for the structure it is a node with two children, as jax says - as the whole
        # candidate or somewhere inside it
        from ..model.leaftypes import NodeArr

        wrap = lambda: NodeArr(real.np_array((2,)), 0)
        if rng.random() < 0.5:
            x = wrap()
        else:
            x = GT.map_leaves(x, lambda l: wrap() if rng.random() < 0.4 else l, is_leaf=isl)
        rec.count("candidates_with_arraylike_node")
    if lt == "pair":
        x = GT.map_leaves(x, lambda l: (l, l + 1) if isinstance(l, int) and not isinstance(l, bool) else l, is_leaf=isl)
    leaftype = {"int": int, "any": __import__("typing").Any, "pair": tuple[int, int]}[lt]
    is_pair = lambda y: type(y) is tuple and len(y) == 2 and all(isinstance(e, int) for e in y)
    cand_isl = {"int": isl, "any": None, "pair": is_pair}[lt]
    desc = {"t": GT.describe(t), "s": GT.describe(s), "x": GT.describe(x), "form": form, "leaftype": lt, "rngkey": rngkey}

    def body():
        bound = {}
        for name, tree in (("T", t), ("S", s)):
            got = real.check(tree, jaxtyping.PyTree[int, respell(rng, name)])
            if got != "ok":
                return ("binder", name, got)
            if tree is not None:
                bound[name] = TM.struct(tree, isl)
        if x is None:
            exp, newb = "ok", None
        else:
            exp, newb = expected(form, bound, TM.struct(x, cand_isl))
            if lt == "pair" and exp == "ok" and not all(is_pair(l) for l in TM.leaves(x, cand_isl)):
                exp, newb = "no", None  # a leaf that is not a pair of ints fails the leaf type
        got = real.check(x, jaxtyping.PyTree[leaftype, respell(rng, form)])
        rs, rv, rt = real.bindings()
        names = set(bound) | ({newb[0]} if (newb and got == "ok") else set())
        return ("cand", exp, got, set(rt), names)

    out = real.in_block_context(body)
    rec.count("leaftype." + lt)
    rec.case((desc["t"], desc["s"], desc["x"], form, lt), nontrivial=TM.depth(TM.struct(x, isl)) >= 2 or " " in form)
    if out[0] == "binder":
        rec.violation("binder", desc, f"binding {out[1]} to a tree of ints answered {out[2]}", mechanism="binder-" + out[2])
        return
    _, exp, got, rt, names = out
    rec.count("verdict." + (got if got in ("ok", "no", "annot") else "other"))
    if " " not in form:
        rec.count("form.plain.bound" if form in ("T", "S") else "form.plain.new")
    elif form.endswith("..."):
        rec.count("form.prefix")
    elif form.startswith("..."):
        rec.count("form.suffix")
    else:
        rec.count("form.compose")
    if has(x, lambda y: y is None):
        rec.count("cand.none_nodes")
    if has(x, lambda y: type(y) in (tuple, list, dict) and len(y) == 0):
        rec.count("cand.empty_containers")
    if got != exp:
        kind = "prefix" if form.endswith("...") else "suffix" if form.startswith("...") else "compose" if " " in form else "plain"
        rec.violation("verdict", desc, f"form {form!r}: model {exp}, real {got}; t={desc['t']} s={desc['s']} x={desc['x']}", mechanism=f"{kind}-model-{exp}-real-{got}")
        return
    if rt != names:
        rec.violation("structure-bindings", desc, f"after the candidate check ({got}) bound structure names are {sorted(rt)}, expected {sorted(names)}", mechanism="structure-names-" + got)


# ---------------------------------------------------------------------------------------
# structure strings

ATOMS = ["T", "S", "foo", "_x", "x1", "Tä", "ñ", "class", "None", "1x", "9", "T-S", "T,S", "a.b", "...", "....", "..", "…", "T...", "...T", "", "*", "?T", "T=", "(T)", "'T'"]
SEPS = [" ", "  ", "\t", "\n", " \t ", "\r\n", "\x0b", " ", " "]


def valid_structure_string(s):
    """the 10-line validator of the statement. -> True | False | None (open corner)"""
    pieces = s.split()
    if not pieces:
        return False
    lead = pieces[0] == "..."
    trail = len(pieces) > 1 and pieces[-1] == "..."
    core = pieces[1 if lead else 0 : len(pieces) - (1 if trail else 0)]
    if not all(p.isidentifier() for p in core):
        return False
    if not core or (lead and trail):
        return None  # bare '...', or '...' on both ends: the statement does not say
    return True


def run_string(rec, rng):
    import jaxtyping

    n = rng.choice((1, 1, 2, 2, 3, 4))
    s = rng.choice(("", "", " ", "\n"))
    for i in range(n):
        if i:
            s += rng.choice(SEPS)
        s += rng.choice(ATOMS)
    s += rng.choice(("", "", " ", "\t"))
    exp = valid_structure_string(s)
    rec.count("strings.fuzzed")
    rec.case(("string", s), nontrivial=True)
    try:
        jaxtyping.PyTree[int, s]
        got = "accepted"
    except ValueError:
        got = "valueerror"
    except Exception as e:  # noqa
        got = "exc:" + type(e).__name__
    rec.count("strings." + (got if got in ("accepted", "valueerror") else "other"))
    if exp is None:
        rec.open_corner("bare-or-double-ellipsis")
        if got not in ("accepted", "valueerror"):
            rec.violation("structure-string", {"string": s}, f"{s!r}: building raised {got}", mechanism="string-" + got)
        return
    want = "accepted" if exp else "valueerror"
    if got != want:
        rec.violation("structure-string", {"string": s}, f"structure string {s!r}: expected {want}, got {got}", mechanism=f"string-{want}-got-{got}")


def run_shard(rec, seed, shard, tier):
    warnings.filterwarnings("ignore")
    if shard.get("i", 1) % 2 == 1:
        real.hostile_prelude(rec)  # a past: nothing the check decides may depend on it
        real.toplevel_probes(rec, None, "after the hostile prelude")
    GT.ensure_registered()
    for k in range(CASES[tier]):
        key = f"{seed}/C09/{shard['i']}/{k}"
        run_case(rec, random.Random(key), rngkey=key)
        run_string(rec, random.Random(key + "/s"))
    rec.sample({"forms": list(FORMS), "string_atoms": ATOMS})


def replay(rec, case):
    warnings.filterwarnings("ignore")
    GT.ensure_registered()
    if "string" in case:
        import jaxtyping

        s = case["string"]
        exp = valid_structure_string(s)
        try:
            jaxtyping.PyTree[int, s]
            got = "accepted"
        except ValueError:
            got = "valueerror"
        except Exception as e:  # noqa
            got = "exc:" + type(e).__name__
        if exp is not None and got != ("accepted" if exp else "valueerror"):
            rec.violation("structure-string", case, f"{s!r}: {got}", mechanism="string")
        return
    run_case(rec, random.Random(case["rngkey"]), rngkey=case["rngkey"])

"""C19 — disabling checks makes decorated code behave exactly like plain code."""

# (no `from __future__ import annotations`: this module defines annotated callables)
import itertools
import json
import os
import random
import subprocess
import sys
import tempfile
import typing
import warnings

import numpy as np

from .. import real

LEVEL = "exploration"
TECHNIQUE = "runtime monitoring: plain function as specification - every decorated callable kind is called with well- and ill-typed arguments under every switch (JAXTYPING_DISABLE spellings in fresh subprocesses, config.update at every moment relative to decoration and call, typing.no_type_check above/below) and compared on result identity, exception, side-effect log and the bindings the body sees; switching back must restore rejection; objects (annotations, PyTree subscriptions, pickles, copies, decorated callables, hooked modules) made while checking is off and used after it is on again; config.update flips after every environment default; the pytest front end with a conftest; config.update made from a __repr__ during error formatting; the same function wrapped again while a no_type_check'ed wrapper of it exists"
LEVEL_TEXT = (
    "All case variants of 0/1/true/false and a list of illegal spellings are enumerated for both the environment variable "
    "(fresh process each) and config.update; all callable kinds x both typecheckers x toggle moments x well/ill-typed "
    "inputs are enumerated. The space of inputs to the callables is sampled."
)
LEVEL_NOTE = "Scope decisions (not judged, reported): old-style / typechecker=None wrappers do no checking of their own; ints 0/1 as switch values; no_type_check applied to classmethod/staticmethod objects."
RULE = (
    "one case = (switch kind, spelling/moment, callable kind, typechecker, well- or ill-typed argument list) or one env-var "
    "subprocess; non-trivial = ill-typed input or a toggle between decoration and call; distinct by that tuple."
)
ASSUMPTIONS = ["behaviour = returned object identity, exception type+identity, side-effect log, print_bindings() seen by the body"]
NSHARDS = 16
SHARD_TIMEOUT = {"quick": 900, "thorough": 1800}


def shards(tier):
    return [{"i": i} for i in range(NSHARDS)]


def required_counters(tier):
    return {
        "env.subprocesses": 30,
        "env.legal": 15,
        "env.illegal": 8,
        "update.legal": 30,
        "update.illegal": 15,
        "disabled.calls.ill_typed": 200,
        "disabled.calls.well_typed": 100,
        "reenabled.rejections": 100,
        "moment.before_decoration": 20,
        "moment.between": 20,
        "moment.inside_running_call": 20,
        "no_type_check.above": 10, "no_type_check.same_function_wrapped_again": 10,
        "no_type_check.below": 10, "no_type_check.after_first_call": 10, "threads.switch_seen_in_other_thread": 10, "update.item_name_case": 30, "disabled.calls.non_binding": 50,
        "kind.dataclass": 10,
        "kind.property": 10,
        "hooked_module.runs": 2,
        "env.then_update_steps": 100, "window.annotations_built_while_disabled": 100, "moment.coroutine_called_off_awaited_on": 10, "kind.oldstyle-over-wraps": 50, "pytest_frontend.sessions": 9, "none_hooked_module.compared_with_plain_while_disabled": 20,
    }


def case_variants(word):
    return sorted({"".join(c) for c in itertools.product(*[(ch.lower(), ch.upper()) for ch in word])})


LEGAL_TRUE = ["1"] + case_variants("true")
LEGAL_FALSE = ["0"] + case_variants("false")
ILLEGAL = ["2", "yes", "no", "", "on", "off", "t", "f", "01", " 1", "1 ", "tru", "none", "-1", "1.0"]
ILLEGAL_OBJS = [None, 2, 1.0, [], (), object(), b"1", ["true"]]

N = np.ndarray
LOG = []


def A(*shape, dt="float32"):
    return real.np_array(shape, dt)


def make_callables(checker, mark=None):
    """-> dict kind -> (plain caller, decorated caller); callers take (x, y) and return outcome"""
    import dataclasses

    import jaxtyping
    from jaxtyping import Float, jaxtyped

    nt = typing.no_type_check
    deco = jaxtyped(typechecker=checker)
    if mark == "above":
        d = lambda f: nt(deco(f))
    elif mark == "below":
        d = lambda f: deco(nt(f))
    else:
        d = deco

    def body(x, y, tag):
        LOG.append((tag, id(x), id(y), real.raw_transcript()))
        if getattr(y, "shape", (0,))[0] == 13:
            raise KeyError("body raises on 13")
        return RES

    out = {}

    def f(x: Float[N, "a b"], y: Float[N, "b"]) -> Float[N, "a"]:
        return body(x, y, "f")

    out["function"] = (f, d(f))

    class K:
        def m(self, x: Float[N, "a b"], y: Float[N, "b"]) -> Float[N, "a"]:
            return body(x, y, "m")

        @classmethod
        def c(cls, x: Float[N, "a b"], y: Float[N, "b"]) -> Float[N, "a"]:
            return body(x, y, "c")

        @staticmethod
        def s(x: Float[N, "a b"], y: Float[N, "b"]) -> Float[N, "a"]:
            return body(x, y, "s")

        @property
        def p(self) -> Float[N, "zz"]:
            return body(None, None, "p")

    class KD:
        m = d(K.__dict__["m"])
        c = classmethod(d(K.__dict__["c"].__func__)) if mark else deco(K.__dict__["c"])
        s = staticmethod(d(K.__dict__["s"].__func__)) if mark else deco(K.__dict__["s"])
        p = property(d(K.__dict__["p"].fget)) if mark else deco(K.__dict__["p"])

    out["method"] = (lambda x, y: K().m(x, y), lambda x, y: KD().m(x, y))
    out["classmethod"] = (lambda x, y: K.c(x, y), lambda x, y: KD.c(x, y))
    out["staticmethod"] = (lambda x, y: K.s(x, y), lambda x, y: KD.s(x, y))
    out["property"] = (lambda x, y: K().p, lambda x, y: KD().p)
    if mark is None:

        @dataclasses.dataclass
        class DP:
            x: Float[N, "a b"]
            y: Float[N, "b"]

            def __post_init__(self):
                body(self.x, self.y, "d")

        @deco
        @dataclasses.dataclass
        class DD:
            x: Float[N, "a b"]
            y: Float[N, "b"]

            def __post_init__(self):
                body(self.x, self.y, "d")

        out["dataclass"] = (lambda x, y: (DP(x, y), RES)[1], lambda x, y: (DD(x, y), RES)[1])
        # a functools.wraps-style decorator BETWEEN jaxtyped and the def (caching, retrying, doubling ...): with
        # checking off it still runs, exactly as in the plain stack - old double-decorator spelling and typechecker=None
        import functools

        def noted(fn):
            @functools.wraps(fn)
            def w(*a, **k):
                LOG.append(("noted", len(a), tuple(sorted(k))))
                return fn(*a, **k)

            return w

        def g(x: Float[N, "a b"], y: Float[N, "b"]) -> Float[N, "a"]:
            return body(x, y, "g")

        with warnings.catch_warnings():
            warnings.simplefilter("ignore")
            out["oldstyle-over-wraps"] = (noted(g), jaxtyped(checker(noted(g))))
            out["none-over-wraps"] = (noted(g), jaxtyped(typechecker=None)(noted(g)))
            out["newstyle-over-wraps"] = (noted(g), deco(noted(g)))
    return out


RES = A(2)  # well-typed as a return value for a=2; ill-typed calls make it wrong on purpose

INPUTS = {
    "well": lambda: (A(2, 3), A(3)),
    "ill_param": lambda: (A(2, 3), A(4)),
    "ill_dtype": lambda: (A(2, 3, dt="int32"), A(3)),
    "ill_return": lambda: (A(5, 3), A(3)),  # return value RES has a=2 != 5
    "not_array": lambda: ("text", 7),
    "body_raises": lambda: (A(2, 13), A(13)),
}


def outcome(call, x, y):
    LOG.clear()
    try:
        r = call(x, y)
        o = ("ret", id(r))
    except BaseException as e:  # noqa
        o = ("exc", type(e).__name__, str(e)[:200] if isinstance(e, (KeyError, TypeError)) and type(e).__name__ in ("KeyError", "TypeError") else "")
    return o, list(LOG)


def compare_nonbinding(rec, label, checker, case_base):
    """with checking off a call that does not bind must fail exactly as the plain function's call does"""
    import functools

    from jaxtyping import Float, jaxtyped

    def f(x: Float[N, "a b"], y: Float[N, "b"], *, k: int = 1) -> Float[N, "a"]:
        LOG.append(("f",))
        return RES

    def supplies_y(g):
        @functools.wraps(g)
        def w(x):
            return g(x, A(3))

        return w

    df = jaxtyped(typechecker=checker)(f)
    calls = {
        "missing": lambda g: g(A(2, 3)),
        "too_many": lambda g: g(A(2, 3), A(3), 1, 2),
        "unknown_kw": lambda g: g(A(2, 3), A(3), nope=1),
        "dup": lambda g: g(A(2, 3), x=A(2, 3)),
        "none": lambda g: g(),
        "through_wraps_helper": lambda g: supplies_y(g)(A(2, 3)),
    }
    for name, c in calls.items():
        o1, l1 = outcome(lambda x, y: c(f), None, None)
        o2, l2 = outcome(lambda x, y: c(df), None, None)
        rec.case((label, "nonbinding", name), True)
        rec.count("disabled.calls.non_binding")
        if o1[:2] != o2[:2] or o1[2:] != o2[2:] or l1 != l2:
            rec.violation("disabled-differs", dict(case_base, input="nonbinding:" + name), f"{label}: non-binding call {name}: plain {o1} vs decorated {o2}", mechanism=f"{label.split(':')[0]}-disabled-nonbinding-differs")


def compare_disabled(rec, label, kinds, case_base):
    """with checking off, decorated == plain on every input, also inside a caller's context"""
    for kind, (plain, decorated) in kinds.items():
        for iname, mk in INPUTS.items():
            x, y = mk()
            for where in ("top", "ctx"):
                run = (lambda c: outcome(c, x, y)) if where == "top" else (lambda c: real.in_block_context(lambda: (isinstance(A(9), __import__("jaxtyping").Shaped[N, "outer"]), outcome(c, x, y))[1]))
                o1, l1 = run(plain)
                o2, l2 = run(decorated)
                if kind in ("oldstyle-over-wraps", "none-over-wraps"):
                    # the old double-decorator spelling and typechecker=None keep their context (and the old spelling
                    # its typechecker) when checking is off - whether that is 'like plain code' is a matter of reading
                    # (open corner, as in the design); what is judged here: on well-typed input the layers BETWEEN
                    # jaxtyped and the def run exactly as in the plain stack, and the result is the same
                    rec.open_corner("oldstyle-and-None-wrappers-keep-their-context-when-disabled")
                    if iname not in ("well", "body_raises"):
                        continue
                    l1 = [e for e in l1 if e[0] == "noted"]
                    l2 = [e for e in l2 if e[0] == "noted"]
                rec.case((label, kind, iname, where), nontrivial=iname != "well")
                rec.count("disabled.calls." + ("well_typed" if iname in ("well", "body_raises") else "ill_typed"))
                rec.count("kind." + kind)
                if o1 != o2 or l1 != l2:
                    rec.violation(
                        "disabled-differs",
                        dict(case_base, kind=kind, input=iname, where=where),
                        f"{label}: {kind} on input {iname} ({where}): plain {o1} log {l1} vs decorated {o2} log {l2}",
                        mechanism=f"{label.split(':')[0]}-disabled-{kind}-differs",
                    )


def check_enabled_rejects(rec, label, kinds, case_base):
    for kind, (plain, decorated) in kinds.items():
        if kind in ("oldstyle-over-wraps", "none-over-wraps"):
            continue  # (no typechecker / the typechecker's own TypeError: outside "raises TypeCheckError")
        for iname in ("ill_param", "ill_dtype", "not_array") if kind != "property" else ("ill_return",):
            x, y = INPUTS[iname]()
            o2, l2 = outcome(decorated, x, y)
            rec.count("reenabled.rejections")
            rec.case((label, "enabled", kind, iname), True)
            if kind == "property":
                continue
            if o2[0] != "exc" or o2[1] != "TypeCheckError" or l2:
                rec.violation("not-rechecked", dict(case_base, kind=kind, input=iname), f"{label}: checking is on again but {kind}({iname}) gave {o2}, body ran {len(l2)}x", mechanism=f"{label.split(':')[0]}-reenable-not-checked")


_OUTSIDE = {}


def arm_config_update(rec, rng):
    import beartype
    import typeguard

    import jaxtyping
    from jaxtyping import config

    assert config.jaxtyping_disable is False
    # spellings
    for v in LEGAL_TRUE + LEGAL_FALSE + [True, False]:
        try:
            config.update("jaxtyping_disable", v)
            got = config.jaxtyping_disable
        except Exception as e:  # noqa
            got = "exc:" + type(e).__name__
        want = v if isinstance(v, bool) else (v in LEGAL_TRUE)
        rec.count("update.legal")
        rec.case(("update", repr(v)), True)
        if got is not want:
            rec.violation("switch-parse", {"value": repr(v)}, f"config.update('jaxtyping_disable', {v!r}) -> {got}, expected {want}", mechanism="update-legal-spelling-" + str(got))
        config.update("jaxtyping_disable", False)
    for v in ILLEGAL + ILLEGAL_OBJS:
        try:
            config.update("jaxtyping_disable", v)
            got = "accepted:" + repr(config.jaxtyping_disable)
        except ValueError:
            got = "valueerror"
        except Exception as e:  # noqa
            got = "exc:" + type(e).__name__
        config.update("jaxtyping_disable", False)
        rec.count("update.illegal")
        rec.case(("update-illegal", repr(v)), True)
        if got != "valueerror":
            rec.violation("switch-parse", {"value": repr(v)}, f"config.update('jaxtyping_disable', {v!r}) -> {got}, expected ValueError", mechanism="update-illegal-" + got.split(":")[0])
    for v in (0, 1):
        rec.open_corner("int-0-1-as-switch-value")
    # the switches are process-wide: flipped in one thread, seen by decorated calls in every thread
    import threading

    import typeguard as _tg

    kinds_t = make_callables(_tg.typechecked)
    fpl, fde = kinds_t["function"]

    def in_thread(fn):
        box = []
        t = threading.Thread(target=lambda: box.append(fn()))
        t.start()
        t.join()
        return box[0]

    pool_worker_ready, pool_go, pool_out = threading.Event(), threading.Event(), []

    def pre_existing_worker():
        pool_worker_ready.set()
        pool_go.wait(30)
        pool_out.append(outcome(fde, *INPUTS["ill_param"]())[0][:2])

    w = threading.Thread(target=pre_existing_worker)
    w.start()
    pool_worker_ready.wait(30)
    config.update("jaxtyping_disable", True)  # main thread flips the switch
    try:
        o_new = in_thread(lambda: outcome(fde, *INPUTS["ill_param"]())[0][:1])
        pool_go.set()
        w.join(30)
        rec.count("threads.switch_seen_in_other_thread")
        rec.case(("thread-switch",), True)
        if o_new != ("ret",) or (pool_out and pool_out[0][:1] != ("ret",)):
            rec.violation("disabled-differs", {"moment": "switch flipped in the main thread, call in another thread"}, f"disabled in the main thread, but a new thread got {o_new} and a pre-existing thread {pool_out}", mechanism="switch-not-seen-in-other-thread")
        in_thread(lambda: config.update("jaxtyping_disable", False))  # a worker switches it back on
        o_main = outcome(fde, *INPUTS["ill_param"]())[0][:2]
        if o_main != ("exc", "TypeCheckError"):
            rec.violation("not-rechecked", {"moment": "switched back on in a worker thread"}, f"re-enabled in a worker thread, main thread ill-typed call gave {o_main}", mechanism="switch-not-seen-in-other-thread")
    finally:
        pool_go.set()
        config.update("jaxtyping_disable", False)
    # the item NAME is matched case-insensitively by the API: every accepted spelling must really switch
    for nm in ("JAXTYPING_DISABLE", "Jaxtyping_Disable", "jaxtyping_DISABLE"):
        try:
            config.update(nm, True)
            acc = True
        except ValueError:
            acc = False
        rec.count("update.item_name_case")
        rec.case(("item-name", nm), True)
        if acc:
            o = outcome(fde, *INPUTS["ill_param"]())[0][:1]
            config.update(nm, False)
            config.update("jaxtyping_disable", False)
            if o != ("ret",):
                rec.violation("switch-parse", {"item": nm}, f"config.update({nm!r}, True) was accepted but checking stayed on ({o})", mechanism="accepted-item-name-has-no-effect")
    try:
        config.update("jaxtyping_no_such_option", True)
        rec.violation("switch-parse", {"item": "jaxtyping_no_such_option"}, "unknown config item accepted", mechanism="unknown-item-accepted")
    except ValueError:
        pass
    # moments
    for cname, checker in (("typeguard", typeguard.typechecked), ("beartype", beartype.beartype)):
        base = {"checker": cname}
        # (1) toggled before decoration
        config.update("jaxtyping_disable", rng.choice(LEGAL_TRUE))
        kinds = make_callables(checker)
        rec.count("moment.before_decoration")
        compare_disabled(rec, "update:before-decoration", kinds, base)
        config.update("jaxtyping_disable", rng.choice(LEGAL_FALSE))
        check_enabled_rejects(rec, "update:before-decoration", kinds, base)
        # (1b) annotation objects BUILT (or unpickled / copied) while checking is off, used after it is on again:
        # direct isinstance, PyTree leaves, and a function decorated afterwards - like objects built outside
        import copy
        import pickle

        import jaxtyping as _jt

        config.update("jaxtyping_disable", True)
        try:
            L = _jt.Float[N, "a"]
            built = {"array": _jt.Float[N, "a b"], "leaf": L, "pytree": _jt.PyTree[L], "pytree-structured": _jt.PyTree[_jt.Float[N, "a"], "T"], "nested": _jt.Shaped[_jt.Float[N, "a"], "b"]}
            outside = _jt.Float[N, "a b"]
            built["unpickled"] = pickle.loads(pickle.dumps(_OUTSIDE.setdefault("ab", _jt.Float[N, "a b"])))
            built["deepcopied"] = copy.deepcopy(_OUTSIDE["ab"])
        finally:
            config.update("jaxtyping_disable", False)
        built["pytree-same-leaf-after"] = _jt.PyTree[L]
        probes = {
            "array": (A(2, 3), A(2, 3, dt="int32"), A(2)),
            "leaf": (A(2), A(2, dt="int32"), A(2, 2)),
            "pytree": ([A(2), A(2)], [A(2), A(3)], [A(2, dt="int32")]),
            "pytree-structured": ([A(2), A(2)], [A(2), A(3)], [A(2, dt="int8")]),
            "pytree-same-leaf-after": ([A(2), A(2)], [A(2), A(3)], [A(2, dt="int32")]),
            "nested": (A(3, 2), A(3, 2, dt="int32"), A(3)),
            "unpickled": (A(2, 3), A(2, 3, dt="int32"), A(2)),
            "deepcopied": (A(2, 3), A(2, 3, dt="int32"), A(2)),
        }
        for what, ann in built.items():
            good, bad1, bad2 = probes[what]
            got = real.in_block_context(lambda: (isinstance(good, ann), isinstance(bad1, ann), isinstance(bad2, ann)))
            rec.count("window.annotations_built_while_disabled")
            rec.case(("window-annotation", cname, what), True)
            if got != (True, False, False):
                rec.violation("not-rechecked", dict(base, built=what), f"annotation ({what}) built while checking was off, used after it is on again: isinstance on (good, bad, bad) values gave {got}", mechanism="window-built-annotation-" + what + "-inert")
            ns2 = {"T_x": ann}
            real.exec_src("def h(x: T_x):\n    return 1\n", ns2)
            hd = _jt.jaxtyped(typechecker=checker)(ns2["h"])
            try:
                hd(bad1)
                o = "ran"
            except Exception as e:  # noqa
                o = type(e).__name__
            if o == "ran":
                rec.violation("not-rechecked", dict(base, built=what), f"annotation ({what}) built while checking was off: a function decorated and called after re-enabling accepted an ill-typed argument", mechanism="window-built-annotation-" + what + "-inert-in-signature")
        # (2) decorated while enabled, toggled between decoration and call
        kinds = make_callables(checker)
        check_enabled_rejects(rec, "update:between", kinds, base)
        config.update("jaxtyping_disable", True)
        rec.count("moment.between")
        compare_disabled(rec, "update:between", kinds, base)
        compare_nonbinding(rec, "update:between", checker, base)
        config.update("jaxtyping_disable", "0")
        check_enabled_rejects(rec, "update:between", kinds, base)
        # (3) toggled inside a running decorated call, for the next call
        kinds = make_callables(checker)
        from jaxtyping import Float, jaxtyped

        @jaxtyped(typechecker=checker)
        def outer(x: Float[N, "q"]):
            config.update("jaxtyping_disable", True)
            try:
                rec.count("moment.inside_running_call")
                compare_disabled(rec, "update:inside-running-call", kinds, base)
            finally:
                config.update("jaxtyping_disable", False)
            check_enabled_rejects(rec, "update:inside-running-call", kinds, base)
            return None

        outer(A(4))
        # (3a) a decorated coroutine function: the switch is read when it is CALLED (as for any function), not when
        # the coroutine is awaited later
        nsA = {"Float": Float, "N": N, "RES": RES}
        real.exec_src("async def co(x: Float[N, 'a b'], y: Float[N, 'b']):\n    return RES\n", nsA)
        co_plain, co_deco = nsA["co"], jaxtyped(typechecker=checker)(nsA["co"])

        def drive(c):
            try:
                c.send(None)
            except StopIteration as e:
                return ("ret", e.value is RES)
            except Exception as e:  # noqa
                return ("exc", type(e).__name__)
            finally:
                c.close()
            return ("suspended",)

        xi, yi = INPUTS["ill_param"]()
        config.update("jaxtyping_disable", True)
        try:
            c_off = co_deco(xi, yi)
            bad_arity = None
            try:
                co_deco(xi)
            except TypeError:
                bad_arity = "TypeError-at-call"
            except Exception as e:  # noqa
                bad_arity = type(e).__name__
        finally:
            config.update("jaxtyping_disable", False)
        r_off = drive(c_off)
        rec.count("moment.coroutine_called_off_awaited_on")
        if r_off != drive(co_plain(xi, yi)) or bad_arity != "TypeError-at-call":
            rec.violation("disabled-differs", dict(base, kind="coroutine function"), f"decorated coroutine function CALLED while checking was off and awaited after it was switched on again: {r_off} (plain: ('ret', True)); wrong-arity call while off: {bad_arity}", mechanism="update-disabled-coroutine-differs")
        try:
            drive(co_deco(xi, yi))
            r_on = "no error"
        except Exception as e:  # noqa
            r_on = type(e).__name__
        # (3b) typing.no_type_check applied to the wrapper AFTER it has already been called (checked) once
        kinds = make_callables(checker)
        fplain, fdeco = kinds["function"]
        outcome(fdeco, *INPUTS["well"]())
        o_bad, _ = outcome(fdeco, *INPUTS["ill_param"]())
        if o_bad[:2] != ("exc", "TypeCheckError"):
            rec.violation("not-rechecked", dict(base, kind="function"), f"before no_type_check: ill-typed call gave {o_bad}", mechanism="late-no-type-check-precondition")
        fdeco = typing.no_type_check(fdeco)
        rec.count("no_type_check.after_first_call")
        compare_disabled(rec, "no_type_check:after-first-call", {"function": (fplain, fdeco)}, base)
        # (4) no_type_check above / below
        for mark in ("above", "below"):
            kinds = make_callables(checker, mark=mark)
            kinds = {k: v for k, v in kinds.items() if k in ("function", "method")}
            rec.count("no_type_check." + mark)
            compare_disabled(rec, f"no_type_check:{mark}", kinds, base)
            if mark == "above":
                # (4b) the SAME function object is wrapped again elsewhere in the process (a second, checking wrapper),
                # that wrapper dies, many short-lived wrappers come and go: the switched-off one stays switched off
                import gc

                fplain, fdeco = kinds["function"]
                strict = jaxtyped(typechecker=checker)(fplain)
                rec.count("no_type_check.same_function_wrapped_again")
                compare_disabled(rec, "no_type_check:above+second-wrapper-alive", {"function": (fplain, fdeco)}, base)
                check_enabled_rejects(rec, "no_type_check:second-wrapper", {"function": (fplain, strict)}, base)
                del strict
                gc.collect()
                compare_disabled(rec, "no_type_check:above+second-wrapper-collected", {"function": (fplain, fdeco)}, base)
                for _ in range(30):
                    tmp = jaxtyped(typechecker=checker)(fplain)
                    outcome(tmp, *INPUTS["well"]())
                del tmp
                gc.collect()
                compare_disabled(rec, "no_type_check:above+after-temporary-wrappers", {"function": (fplain, fdeco)}, base)
    assert config.jaxtyping_disable is False


ENV_SCRIPT = r'''
import json, os, sys, warnings
warnings.filterwarnings("ignore")
out = {}
try:
    import jaxtyping
    out["disable"] = jaxtyping.config.jaxtyping_disable
    import numpy as np, typeguard
    from jaxtyping import Float, jaxtyped
    @jaxtyped(typechecker=typeguard.typechecked)
    def f(x: Float[np.ndarray, "a"], y: Float[np.ndarray, "a"]):
        return "ran"
    try:
        out["ill_typed_call"] = f(np.zeros(2, dtype="float32"), np.zeros(3, dtype="float32"))
    except Exception as e:
        out["ill_typed_call"] = "exc:" + type(e).__name__
    if len(sys.argv) > 1:
        sys.path.insert(0, sys.argv[1])
        with jaxtyping.install_import_hook("jtv_c19_hooked", "typeguard.typechecked"):
            import jtv_c19_hooked
        try:
            out["hooked_ill_typed"] = jtv_c19_hooked.g(np.zeros(2, dtype="float32"), np.zeros(3, dtype="float32"))
        except Exception as e:
            out["hooked_ill_typed"] = "exc:" + type(e).__name__
        try:
            jtv_c19_hooked.D(np.zeros((2, 2), dtype="float32"))
            out["hooked_dataclass"] = "constructed"
        except Exception as e:
            out["hooked_dataclass"] = "exc:" + type(e).__name__
    # the environment only gives the INITIAL value: config.update flips it both ways afterwards, for explicitly
    # decorated code and for a module that was imported through the hook in whichever state the process started
    def plainlike_obs(mod):
        import contextlib, io
        o = {}
        try:
            mod.g()
        except TypeError as e:
            o["arity"] = str(e)
        try:
            mod.raiser(np.zeros(2, dtype="float32"))
        except KeyError as e:
            o["notes"] = repr(getattr(e, "__notes__", None))
        with jaxtyping.jaxtyped("context"):
            isinstance(np.zeros(9), jaxtyping.Shaped[np.ndarray, "outer"])
            o["sees"] = mod.binds(np.zeros(2, dtype="float32"))
        return o
    if len(sys.argv) > 1:
        with jaxtyping.install_import_hook("jtv_c19_hooked_none", None):
            import jtv_c19_hooked_none
        import jtv_c19_plain
        out["none_hook_initial"] = [jaxtyping.config.jaxtyping_disable, plainlike_obs(jtv_c19_hooked_none), plainlike_obs(jtv_c19_plain)]
    steps = []
    cur = out["disable"]
    spell = {True: [True, "1", "TRUE", "true"], False: [False, "0", "false", "False"]}
    for i in range(4):
        cur = not cur
        jaxtyping.config.update("jaxtyping_disable", spell[cur][i])
        st = {"set": repr(spell[cur][i]), "want_disabled": cur, "flag": jaxtyping.config.jaxtyping_disable}
        try:
            st["f"] = f(np.zeros(2, dtype="float32"), np.zeros(3, dtype="float32"))
        except Exception as e:
            st["f"] = "exc:" + type(e).__name__
        if len(sys.argv) > 1:
            try:
                st["g"] = jtv_c19_hooked.g(np.zeros(2, dtype="float32"), np.zeros(3, dtype="float32"))
            except Exception as e:
                st["g"] = "exc:" + type(e).__name__
            try:
                jtv_c19_hooked.D(np.zeros((2, 2), dtype="float32"))
                st["D"] = "constructed"
            except Exception as e:
                st["D"] = "exc:" + type(e).__name__
            st["none_hook"] = [plainlike_obs(jtv_c19_hooked_none), plainlike_obs(jtv_c19_plain)]
        steps.append(st)
    out["steps"] = steps
except ValueError as e:
    out["import"] = "valueerror"
except Exception as e:
    out["import"] = "exc:" + type(e).__name__
print(json.dumps(out))
'''

HOOKED = '''
import dataclasses
import numpy as np
from jaxtyping import Float

def g(x: Float[np.ndarray, "a"], y: Float[np.ndarray, "a"]):
    return "ran"

@dataclasses.dataclass
class D:
    x: Float[np.ndarray, "a"]

def raiser(x: Float[np.ndarray, "a"]):
    raise KeyError("from the body")

def binds(x: Float[np.ndarray, "a"]):
    import contextlib, io, jaxtyping
    b = io.StringIO()
    with contextlib.redirect_stdout(b):
        jaxtyping.print_bindings()
    return b.getvalue().strip()
'''


def arm_env(rec, shard):
    vals = [(v, True) for v in LEGAL_TRUE] + [(v, False) for v in LEGAL_FALSE] + [(v, None) for v in ILLEGAL] + [(None, False)]
    scratch = tempfile.mkdtemp(prefix="jtv_c19_")
    try:
        for modname in ("jtv_c19_hooked", "jtv_c19_hooked_none", "jtv_c19_plain"):
            with open(os.path.join(scratch, modname + ".py"), "w") as f:
                f.write(HOOKED)
        for idx, (v, want) in enumerate(vals):
            if idx % NSHARDS != shard["i"]:
                continue
            env = dict(os.environ)
            env.pop("JAXTYPING_DISABLE", None)
            if v is not None:
                env["JAXTYPING_DISABLE"] = v
            hooked = idx % 3 == 0
            r = subprocess.run([sys.executable, "-c", ENV_SCRIPT] + ([scratch] if hooked else []), capture_output=True, text=True, env=env, timeout=300)
            try:
                out = json.loads(r.stdout.strip().splitlines()[-1])
            except Exception:
                rec.inconclusive.append(f"env subprocess failed for {v!r}: rc={r.returncode} {r.stderr[-300:]}")
                continue
            rec.count("env.subprocesses")
            rec.case(("env", v, hooked), True)
            case = {"JAXTYPING_DISABLE": v, "hooked": hooked}
            if want is None:
                rec.count("env.illegal")
                if out.get("import") != "valueerror":
                    rec.violation("env-parse", case, f"JAXTYPING_DISABLE={v!r}: expected ValueError at import, got {out}", mechanism="env-illegal-accepted")
                continue
            rec.count("env.legal")
            if out.get("disable") is not want:
                rec.violation("env-parse", case, f"JAXTYPING_DISABLE={v!r}: config.jaxtyping_disable={out.get('disable')!r} (import: {out.get('import')}), expected {want}", mechanism="env-legal-spelling")
                continue
            exp_call = "ran" if want else "exc:TypeCheckError"
            if out.get("ill_typed_call") != exp_call:
                rec.violation("env-behaviour", case, f"JAXTYPING_DISABLE={v!r}: ill-typed call gave {out.get('ill_typed_call')}, expected {exp_call}", mechanism="env-behaviour-" + ("disabled-still-checks" if want else "enabled-not-checking"))
            if hooked:
                rec.count("hooked_module.runs")
                if out.get("hooked_ill_typed") != exp_call:
                    rec.violation("env-behaviour", case, f"hooked module under JAXTYPING_DISABLE={v!r}: {out.get('hooked_ill_typed')}, expected {exp_call}", mechanism="hooked-module-" + ("disabled-still-checks" if want else "enabled-not-checking"))
                exp_dc = "constructed" if want else "exc:TypeCheckError"
                if out.get("hooked_dataclass") != exp_dc:
                    rec.violation("env-behaviour", case, f"hooked dataclass under JAXTYPING_DISABLE={v!r}: {out.get('hooked_dataclass')}, expected {exp_dc}", mechanism="hooked-dataclass-" + ("disabled-still-checks" if want else "enabled-not-checking"))
            nh = [(out["none_hook_initial"][0], out["none_hook_initial"][1], out["none_hook_initial"][2], "at start")] if out.get("none_hook_initial") else []
            nh += [(st["want_disabled"], st["none_hook"][0], st["none_hook"][1], f"after update step {k}") for k, st in enumerate(out.get("steps", [])) if "none_hook" in st]
            for dis, o_hook, o_plain, when in nh:
                if not dis:
                    continue
                rec.count("none_hooked_module.compared_with_plain_while_disabled")
                if o_hook != o_plain:
                    diff = {k_: (o_hook.get(k_), o_plain.get(k_)) for k_ in set(o_hook) | set(o_plain) if o_hook.get(k_) != o_plain.get(k_)}
                    rec.violation("env-behaviour", dict(case, when=when), f"module imported through install_import_hook(name, None), checking off ({when}): differs from the same module imported plainly in {diff}", mechanism="none-hooked-module-disabled-differs-from-plain")
                    break
            for k, st in enumerate(out.get("steps", [])):
                rec.count("env.then_update_steps")
                rec.case(("env", v, hooked, "step", k), True)
                wd = st["want_disabled"]
                c2 = dict(case, step=k, update=st["set"])
                if st["flag"] is not wd:
                    rec.violation("env-then-update", c2, f"JAXTYPING_DISABLE={v!r}, then config.update('jaxtyping_disable', {st['set']}) (step {k}): flag reads {st['flag']!r}", mechanism="update-after-env-flag-wrong")
                    continue
                for who, exp in (("f", "ran" if wd else "exc:TypeCheckError"), ("g", "ran" if wd else "exc:TypeCheckError"), ("D", "constructed" if wd else "exc:TypeCheckError")):
                    if who in st and st[who] != exp:
                        what = {"f": "explicitly decorated function", "g": "function of the hooked module", "D": "dataclass of the hooked module"}[who]
                        rec.violation("env-then-update", c2, f"JAXTYPING_DISABLE={v!r}, then config.update('jaxtyping_disable', {st['set']}) (step {k}): ill-typed use of the {what} gave {st[who]}, expected {exp}", mechanism=f"update-after-env-{who}-" + ("still-checks" if wd else "not-checking"))
    finally:
        import shutil

        shutil.rmtree(scratch, ignore_errors=True)


PYTEST_MOD = '''
import numpy as np
from jaxtyping import Float

def g(x: Float[np.ndarray, "a"], y: Float[np.ndarray, "a"]):
    return "ran"
'''
PYTEST_TEST = '''
import json, numpy as np
def test_observe():
    import jaxtyping, jtv_c19_pytestmod as m
    try:
        r = m.g(np.zeros(2, dtype="float32"), np.zeros(3, dtype="float32"))
    except Exception as e:
        r = "exc:" + type(e).__name__
    json.dump({"g": r, "flag": jaxtyping.config.jaxtyping_disable, "wrapped": hasattr(m.g, "__wrapped__")}, open("obs.json", "w"))
'''


def arm_pytest(rec):
    """the pytest front end: `pytest --jaxtyping-packages=...` with the switch set in the environment and / or by a
    conftest.py calling config.update (conftest files are imported before the plugin is configured): the LAST
    word is the conftest's, whichever way it points"""
    cases = [(env, cf) for env in (None, "1", "0") for cf in (None, True, False)]
    for env_v, cf in cases:
        d = tempfile.mkdtemp(prefix="jtv_c19_pytest_")
        try:
            open(os.path.join(d, "jtv_c19_pytestmod.py"), "w").write(PYTEST_MOD)
            open(os.path.join(d, "test_obs.py"), "w").write(PYTEST_TEST)
            open(os.path.join(d, "conftest.py"), "w").write("" if cf is None else f"import jaxtyping\njaxtyping.config.update('jaxtyping_disable', {cf!r})\n")
            env = dict(os.environ)
            env.pop("JAXTYPING_DISABLE", None)
            if env_v is not None:
                env["JAXTYPING_DISABLE"] = env_v
            env["PYTHONPATH"] = d + os.pathsep + env.get("PYTHONPATH", "")
            r = subprocess.run([sys.executable, "-m", "pytest", "-q", "-p", "no:cacheprovider", "--jaxtyping-packages=jtv_c19_pytestmod,typeguard.typechecked", "test_obs.py"], cwd=d, env=env, capture_output=True, text=True, timeout=600)
            try:
                out = json.load(open(os.path.join(d, "obs.json")))
            except Exception:
                rec.inconclusive.append(f"pytest front end produced no observation: {(r.stdout + r.stderr)[-300:]}")
                continue
            want_disabled = cf if cf is not None else (env_v == "1")
            rec.count("pytest_frontend.sessions")
            rec.case(("pytest", env_v, cf), True)
            exp = "ran" if want_disabled else "exc:TypeCheckError"
            if out["flag"] is not want_disabled or out["g"] != exp or not out["wrapped"]:
                rec.violation("pytest-frontend", {"JAXTYPING_DISABLE": env_v, "conftest_update": cf}, f"pytest --jaxtyping-packages with JAXTYPING_DISABLE={env_v!r} and conftest config.update({cf!r}): flag {out['flag']}, hooked function on ill-typed input {out['g']}, instrumented={out['wrapped']} (expected disabled={want_disabled} -> {exp})", mechanism="pytest-frontend-" + ("conftest-overridden" if cf is not None else "env-ignored"))
        finally:
            import shutil

            shutil.rmtree(d, ignore_errors=True)


def run_shard(rec, seed, shard, tier):
    warnings.filterwarnings("ignore")
    os.environ.pop("JAXTYPING_DISABLE", None)
    arm_env(rec, shard)
    if shard["i"] == 1:
        arm_pytest(rec)
    if shard["i"] % 4 == 2:
        real.error_formatting_probe(rec, "C19")
    if True:
        arm_config_update(rec, random.Random(f"{seed}/C19/{shard['i']}"))
    rec.sample({"switch": "config.update('jaxtyping_disable', 'TrUe') between decoration and call", "kind": "classmethod", "input": "ill_param"})


def replay(rec, case):
    warnings.filterwarnings("ignore")
    if "JAXTYPING_DISABLE" in case:
        arm_env(rec, {"i": 0})
        for i in range(1, NSHARDS):
            arm_env(rec, {"i": i})
    else:
        arm_config_update(rec, random.Random(0))

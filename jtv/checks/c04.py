"""C04 — a failed or raising check binds nothing; a passing check is idempotent.

No model decides here: the oracle is before/after equality of the public
print_bindings() transcript, plus follow-up probe checks whose verdict flips on a stale
binding, plus (white-box, optional) deep equality of the internal memo.
The reference model is only used to *steer* the workload (build a non-empty prior state,
aim the mismatch at a chosen axis / leaf, count how many events had tentative bindings).
"""

from __future__ import annotations

import copy
import random
import typing

import numpy as np

from .. import real
from ..gen import annotations as G
from ..gen import trees as GT
from ..model import dims as M

LEVEL = "exploration"
TECHNIQUE = "runtime monitoring: before/after invariant on print_bindings() + stale-binding probe checks around failing, raising (incl. injected user-code exceptions of both classes) and repeated checks; the check is asked the way typecheckers ask (isinstance, beartype DOOR incl. the __instancecheck_str__ hook, typeguard check_type); '?' axes of an already bound structure; rollback invariant on every nested isinstance event (check-trace monitor); checks made 2-70 frames below the recursion limit in a fresh process (die with RecursionError or answer as usual, bindings rolled back); scenarios run one level below an enclosing scope whose bindings must survive them unchanged"
LEVEL_TEXT = (
    "Held on every generated failing/raising/passing check explored, with the mismatch position uniform over axes and "
    "leaves and user-code faults (Exception and BaseException) enumerated over the k-th access of shape/dtype, leaf "
    "__instancecheck__ and custom flatten. Sampling over annotations and states, enumeration over fault positions."
)
LEVEL_NOTE = "Trusts print_bindings() plus probe checks as the observation of bindings; the model only steers the workload."
RULE = (
    "one case = (prior context state built from 0-3 accepted checks, annotation, value) where the value is aimed to "
    "mismatch at a uniformly chosen axis / k-th leaf / inside a tuple leaf, or to raise (unbound symbolic, '?' outside a "
    "tree, unbound structure name, user code raising Exception or BaseException at its k-th call); non-trivial = the "
    "check had bound >=1 axis/structure tentatively before failing (only these can tell rollback from no rollback) or "
    "passed and was repeated; distinct by (state, annotation, value description, fault)."
)
ASSUMPTIONS = [
    "a stale binding is visible in print_bindings() or flips one of the probe checks",
    "faults are injected only where jaxtyping calls user code (array attributes, leaf instancecheck, custom flatten)",
]
CASES = {"quick": 8000, "thorough": 120000}
NSHARDS = 16
NAMES5 = ("a", "b", "c", "d", "e")


def shards(tier):
    return [{"i": i} for i in range(NSHARDS)]


def required_counters(tier):
    return {
        "nested.enclosing_scope_compared": 300, "near_recursion_limit.checks": 500, "near_recursion_limit.died_with_RecursionError": 30,
        "question_axes.later_check_fails_after_binding": 200, "unknown_size.bound_then_concrete_size_checked": 50,
        "fail.with_tentative": 1000,
        "fail.array": 500,
        "fail.pytree": 300,
        "fail.pytree.kth_leaf>1": 100,
        "fail.pytree.struct_name_tentative": 50,
        "fail.tuple_leaf_2nd": 30,
        "raise.annot": 100,
        "raise.user.Exception": 100,
        "raise.user.BaseException": 100,
        "raise.with_tentative": 100,
        "pass.repeated": 500,
        "probes": 1000,
        "array.nested_annotation": 300, "nested_array_events.failed": 300,
        "suite.events": 1000,
        "suite.failed_or_raised_events": 100,
    }


class Injected(Exception):
    pass


class InjectedAbort(BaseException):
    pass


class FaultyDuck:
    """Duck array whose shape/dtype raises on the k-th access."""

    def __init__(self, shape, dtype, attr, k, exc):
        self._shape, self._dtype, self._attr, self._k, self._exc = tuple(shape), dtype, attr, k, exc
        self.n = {"shape": 0, "dtype": 0}

    def _get(self, name, val):
        self.n[name] += 1
        if name == self._attr and self.n[name] == self._k:
            raise self._exc(f"injected at {name} access #{self._k}")
        return val

    @property
    def shape(self):
        return self._get("shape", self._shape)

    @property
    def dtype(self):
        return self._get("dtype", self._dtype)


class _EvilMeta(type):
    plan = {"k": 0, "exc": Injected, "n": 0}

    def __instancecheck__(cls, obj):
        p = _EvilMeta.plan
        p["n"] += 1
        if p["n"] == p["k"]:
            raise p["exc"](f"injected at leaf instancecheck #{p['k']}")
        return False


class Evil(metaclass=_EvilMeta):
    pass


class FaultyNode:
    plan = {"k": 0, "exc": Injected, "n": 0}

    def __init__(self, children):
        self.children = list(children)


def _faulty_flatten(n):
    p = FaultyNode.plan
    p["n"] += 1
    if p["n"] == p["k"]:
        raise p["exc"](f"injected at custom flatten #{p['k']}")
    return tuple(n.children), None


_reg = False


def ensure_faulty_registered():
    global _reg
    if not _reg:
        import jax.tree_util as jtu

        jtu.register_pytree_node(FaultyNode, _faulty_flatten, lambda aux, ch: FaultyNode(ch))
        _reg = True


def Ann(cat, spec, arr=np.ndarray, nest=None):
    """nest=k: build the same meaning as a nested annotation, the first k tokens outside"""
    import jaxtyping

    if nest is not None:
        toks = spec.split()
        outer, inner = toks[:nest], toks[nest:]
        n_var = lambda ts: sum(("*" in t.split("=")[-1]) or t == "..." for t in ts)
        if n_var(outer) <= 1 and n_var(inner) <= 1 and not (n_var(outer) and n_var(inner)):
            return getattr(jaxtyping, cat)[jaxtyping.Shaped[arr, " ".join(inner)], " ".join(outer)]
    return getattr(jaxtyping, cat)[arr, spec]


def build_state(rng, args):
    """0-3 accepted checks; returns (single, variadic) of the model and performs them for real."""
    single, variadic = {}, {}
    done = []
    for _ in range(rng.choice((0, 1, 2, 2, 3))):
        spec = G.gen_spec(rng, max_axes=4, names=NAMES5, allow_symbolic=False)
        toks = M.parse(spec)
        shape = G.gen_shape_for(rng, toks, single, variadic, args, p_perturb=0.0)
        v, why, s1, v1 = M.match(toks, shape, single, variadic, args)
        if v != "ok":
            continue
        if real.check(real.np_array(shape), Ann("Float", spec)) != "ok":
            continue  # C01's business, not ours
        single, variadic = s1, v1
        done.append((spec, list(shape)))
    return single, variadic, done


def observe():
    memo = real.internal_memo()
    wb = None
    if memo is not None:
        try:
            wb = copy.deepcopy((dict(memo[0]), dict(memo[1]), {k: str(v) for k, v in memo[2].items()}))
        except Exception:
            wb = None
    return real.bindings(), wb


def probes_for(rec, names, vnames, tnames, before):
    """each returns True iff no stale binding exists for a name that was unbound before"""
    import jaxtyping

    bad = []
    s0, v0, t0 = before
    for n in names:
        if n and n not in s0:
            rec.count("probes")
            if real.check(real.np_array((11,)), Ann("Shaped", n)) != "ok":
                bad.append(f"axis {n!r} unbound before the failed check but a size-11 probe is rejected")
    for n in vnames:
        if n and n not in v0:
            rec.count("probes")
            if real.check(real.np_array((11, 12, 13)), Ann("Shaped", "*" + n)) != "ok":
                bad.append(f"variadic {n!r} unbound before but a rank-3 probe is rejected")
    for n in tnames:
        if n not in t0:
            rec.count("probes")
            if real.check((1, [2, (3,)], {"q": 4}), jaxtyping.PyTree[int, n]) != "ok":
                bad.append(f"structure {n!r} unbound before but a probe tree is rejected")
    return bad


def spec_names(spec):
    toks = M.parse(spec)
    return (
        [t.name for t in toks if t.kind == "named" and not t.tree],
        [t.name for t in toks if t.kind == "namedvar" and not t.tree],
    )


def judge(rec, desc, do_check, names, vnames, tnames, tentative, family):
    """run one check inside the current context and apply the C04 oracle"""
    desc["rngkey"] = _CUR["rngkey"]
    if desc.get("family") not in _SAMPLED and len(_SAMPLED) < 8:
        _SAMPLED.add(desc.get("family"))
        rec.sample({k: v for k, v in desc.items() if k != "tree"} | ({"tree": str(desc["tree"])[:200]} if "tree" in desc else {}))
    before, wb_before = observe()
    try:
        r = do_check()
        got = "ok" if r else "no"
        exc = None
    except BaseException as e:  # noqa - we injected BaseExceptions on purpose
        got = "raise"
        exc = e
    after, wb_after = observe()
    rec.case(desc, nontrivial=bool(tentative) or got == "ok")
    if got == "ok":
        rec.count("pass.first")
        try:
            r2 = bool(do_check())
        except BaseException as e:  # noqa
            r2 = f"raised {type(e).__name__}"
        after2, wb_after2 = observe()
        rec.count("pass.repeated")
        if r2 is not True:
            rec.violation("idempotence", desc, f"check passed, repeating it gives {r2}", mechanism="repeat-fails")
        elif after2 != after or (wb_after is not None and wb_after2 != wb_after):
            rec.violation("idempotence", desc, f"repeating a passing check changed bindings {after} -> {after2}", mechanism="repeat-rebinds")
        return got
    if got == "no":
        rec.count("fail." + family)
        if tentative:
            rec.count("fail.with_tentative")
    else:
        if isinstance(exc, real.AnnotationError):
            rec.count("raise.annot")
        elif isinstance(exc, Injected):
            rec.count("raise.user.Exception")
        elif isinstance(exc, InjectedAbort):
            rec.count("raise.user.BaseException")
        else:
            rec.count("raise.other." + type(exc).__name__)
        if tentative:
            rec.count("raise.with_tentative")
    cls = "Exception" if isinstance(exc, Exception) else ("BaseException" if exc is not None else "False")
    if after != before:
        rec.violation(
            "rollback",
            desc,
            f"check answered {got} ({type(exc).__name__ if exc else ''}) but bindings changed: before={before} after={after}",
            mechanism=f"stale-binding-after-{cls}",
        )
        return got
    if wb_before is not None and wb_after != wb_before:
        rec.violation("rollback-internal", desc, f"internal memo changed {wb_before} -> {wb_after}", mechanism=f"stale-memo-after-{cls}")
        return got
    bad = probes_for(rec, names, vnames, tnames, before)
    if bad:
        rec.violation("rollback-probe", desc, "; ".join(bad), mechanism=f"stale-probe-after-{cls}")
    return got


# ----------------------------------------------------------------------------------------
# scenario families


def tentative_names(toks, shape, single, variadic, args):
    part = []
    v = M.match(toks, shape, single, variadic, args, lenient=False, partial=part)
    s1, v1 = part[0]
    return v[0], (set(s1) - set(single)) | (set(v1) - set(variadic))


def scen_array(rec, rng, single, variadic, state, args):
    spec = G.gen_spec(rng, max_axes=5, names=NAMES5, allow_symbolic=rng.random() < 0.3, p_variadic=0.5)
    toks = M.parse(spec)
    shape = list(G.gen_shape_for(rng, toks, single, variadic, args, p_perturb=0.0))
    mode = rng.random()
    if shape and mode < 0.8:
        p = rng.randrange(len(shape))  # uniform mismatch position
        shape[p] = rng.choice([s for s in (0, 1, 2, 3, 4, 5, 6) if s != shape[p]])
    elif mode < 0.9:
        shape = shape[:-1] if shape and rng.random() < 0.5 else shape + [2]
    mv, tent = tentative_names(toks, shape, single, variadic, args)
    names, vnames = spec_names(spec)
    nest = rng.randint(0, len(spec.split())) if rng.random() < 0.3 else None
    desc = {"family": "array", "state": state, "spec": spec, "shape": shape, "nested_at": nest}
    if nest is not None:
        rec.count("array.nested_annotation")
    x = real.np_array(shape)
    ann = Ann("Float", spec, nest=nest)
    via = rng.choice(("isinstance", "isinstance", "isinstance", "beartype.is_bearable", "beartype.die_if_unbearable", "typeguard.check_type", "explain-hook"))
    desc["via"] = via
    rec.count("array.via." + via)
    judge(rec, desc, _asker(via, x, ann), names, vnames, [], tent if mv != "ok" else (), "array")


def _asker(via, x, ann):
    """the ways a typechecker asks: plain isinstance, beartype's DOOR API (which, for a value that does not match,
    additionally calls the `__instancecheck_str__` hook to build its message), typeguard's check_type, and that
    hook called directly the way beartype calls it"""
    if via == "beartype.is_bearable":
        import beartype.door

        return lambda: beartype.door.is_bearable(x, ann)
    if via == "beartype.die_if_unbearable":
        import beartype.door
        import beartype.roar

        def ask():
            try:
                beartype.door.die_if_unbearable(x, ann)
                return True
            except beartype.roar.BeartypeDoorHintViolation:
                return False

        return ask
    if via == "typeguard.check_type":
        import typeguard

        def ask():
            try:
                typeguard.check_type("x", x, ann)
                return True
            except TypeError:
                return False

        return ask
    if via == "explain-hook" and hasattr(type(ann), "__instancecheck_str__"):
        return lambda: type(ann).__instancecheck_str__(ann, x) == ""
    return lambda: isinstance(x, ann)


def scen_array_raise(rec, rng, single, variadic, state, args):
    pre = G.gen_spec(rng, max_axes=3, names=NAMES5, allow_symbolic=False, p_variadic=0.4).split()
    bad = rng.choice(("q+1", "zz*2", "?a", "?*w", "#q+a"))
    if bad == "?*w" and any("*" in t or t == "..." for t in pre):
        bad = "?a"
    k = rng.randint(0, len(pre))
    spec = " ".join(pre[:k] + [bad] + pre[k:])
    toks = M.parse(spec)
    shape = list(G.gen_shape_for(rng, toks, single, variadic, args, p_perturb=0.1))
    mv, tent = tentative_names(toks, shape, single, variadic, args)
    names, vnames = spec_names(spec)
    desc = {"family": "array-raise", "state": state, "spec": spec, "shape": shape}
    x = real.np_array(shape)
    ann = Ann("Float", spec)
    judge(rec, desc, lambda: isinstance(x, ann), names, vnames, [], tent if mv != "ok" else (), "array")


def scen_faulty_duck(rec, rng, single, variadic, state, args):
    spec = G.gen_spec(rng, max_axes=4, names=NAMES5, allow_symbolic=False, p_variadic=0.7)
    toks = M.parse(spec)
    shape = list(G.gen_shape_for(rng, toks, single, variadic, args, p_perturb=0.0))
    names, vnames = spec_names(spec)
    _, tent_full = tentative_names(toks, shape, single, variadic, args)
    # one fault per context (the probes bind names, so a context is used once); over a run
    # every (attribute, access index 1..8, exception class) combination is hit many times
    attr = rng.choice(("shape", "shape", "shape", "dtype"))
    k = rng.randint(1, 8)
    exc = rng.choice((Injected, InjectedAbort))
    x = FaultyDuck(shape, "float32", attr, k, exc)
    arr = typing.Any if rng.random() < 0.5 else FaultyDuck
    ann = Ann("Float", spec, arr)
    desc = {"family": "faulty-duck", "state": state, "spec": spec, "shape": shape, "attr": attr, "k": k, "exc": exc.__name__, "arr": "Any" if arr is typing.Any else "FaultyDuck"}

    def do():
        x.n = {"shape": 0, "dtype": 0}
        return isinstance(x, ann)

    rec.count(f"fault.duck.{attr}.{k}")
    judge(rec, desc, do, names, vnames, [], tent_full, "array")


def leaf_arrays(rng, toks, single, variadic, args, m):
    """m shapes that all match toks consistently"""
    s, v = dict(single), dict(variadic)
    out = []
    for _ in range(m):
        sh = G.gen_shape_for(rng, toks, s, v, args, p_perturb=0.0)
        vd, why, s, v = M.match(toks, sh, s, v, args)
        if vd != "ok":
            return None
        out.append(sh)
    return out


def scen_pytree(rec, rng, single, variadic, state, args):
    import jaxtyping

    spec = G.gen_spec(rng, max_axes=3, names=NAMES5, allow_symbolic=False, p_variadic=0.3)
    toks = M.parse(spec)
    # build a tree with m array leaves, then break leaf k
    holder = []
    tree = GT.gen_tree(rng, lambda r: holder.append(len(holder)) or ("L", len(holder) - 1), depth=3, fanout=3, p_leaf=0.3)
    m = len(holder)
    if m == 0:
        return
    shapes = leaf_arrays(rng, toks, single, variadic, args, m)
    if shapes is None:
        return
    k = rng.randrange(m)
    how = rng.choice(("shape", "shape", "dtype", "nonarray"))
    vals = [real.np_array(s) for s in shapes]
    if how == "shape":
        sh = list(shapes[k])
        if sh:
            p = rng.randrange(len(sh))
            sh[p] = rng.choice([s for s in (0, 1, 2, 3, 4, 5, 6) if s != sh[p]])
        else:
            sh = [3]
        vals[k] = real.np_array(sh)
    elif how == "dtype":
        vals[k] = real.np_array(shapes[k], "int32")
    else:
        vals[k] = 7
    is_marker = lambda y: type(y) is tuple and len(y) == 2 and y[0] == "L"
    value = GT.map_leaves(tree, lambda y: vals[y[1]], is_leaf=is_marker)
    sname = rng.choice((None, None, "T", "T", "S T", "T ...", "... T"))
    tnames = []
    if sname is None:
        ann = jaxtyping.PyTree[Ann("Float", spec)]
    else:
        ann = jaxtyping.PyTree[Ann("Float", spec), sname]
        tnames = [p for p in sname.split() if p != "..."]
    names, vnames = spec_names(spec)
    # tentative: earlier leaves bound something new, or the structure name was bound first
    _, tent = tentative_names(toks, shapes[0], single, variadic, args) if k > 0 else ("", set())
    tent = set(tent)
    if sname == "T":
        tent.add("struct:T")
    desc = {"family": "pytree", "state": state, "spec": spec, "struct": sname, "tree": GT.describe(value), "bad_leaf": k, "how": how}
    got = judge(rec, desc, lambda: isinstance(value, ann), names, vnames, tnames, tent, "pytree")
    if got == "no":
        if k > 0:
            rec.count("fail.pytree.kth_leaf>1")
        if sname == "T":
            rec.count("fail.pytree.struct_name_tentative")


def scen_tuple_leaf(rec, rng, single, variadic, state, args):
    import jaxtyping

    n1, n2 = rng.sample(NAMES5, 2)
    L = tuple[Ann("Float", n1), Ann("Float", f"{n2} {n1}")]
    s1 = single.get(n1, rng.choice((2, 3, 4)))
    s2 = single.get(n2, rng.choice((2, 3, 5)))
    good = (real.np_array((s1,)), real.np_array((s2, s1)))
    bad = (real.np_array((s1,)), real.np_array((s2, s1 + 1)))
    m = rng.randint(1, 4)
    k = rng.randrange(m)
    value = [good if i != k else bad for i in range(m)]
    if rng.random() < 0.5:
        value = {"p": value, "q": ()}
    ann = jaxtyping.PyTree[L] if rng.random() < 0.5 else jaxtyping.PyTree[L, "T"]
    desc = {"family": "tuple-leaf", "state": state, "L": f"tuple[Float['{n1}'], Float['{n2} {n1}']]", "m": m, "bad": k}
    tent = {n for n in (n1, n2) if n not in single}
    got = judge(rec, desc, lambda: isinstance(value, ann), [n1, n2], [], ["T"] if ann.structure else [], tent, "pytree")
    if got == "no":
        rec.count("fail.tuple_leaf_2nd")


def scen_union_leaf(rec, rng, single, variadic, state, args):
    """array checks NESTED inside a PyTree check are isinstance checks too: the first alternative of a
    Union leaf type binds an axis and then fails, the second passes, the tree passes - nothing of the
    failed alternative may stay bound. Observed per event with the check-trace monitor."""
    import jaxtyping

    from ..monitor import checktrace

    n1, n2, n3 = rng.sample(NAMES5, 3)
    A1, A2 = Ann("Float", f"{n1} 3"), Ann("Float", f"{n2} 4")
    L = typing.Union[A1, A2] if rng.random() < 0.7 else typing.Optional[A1]
    k = single.get(n2, rng.choice((2, 5)))
    m = rng.randint(1, 3)
    leaves = [real.np_array((k, 4)) for _ in range(m)]
    value = leaves if rng.random() < 0.5 else {"p": tuple(leaves)}
    ann = jaxtyping.PyTree[L] if rng.random() < 0.5 else jaxtyping.PyTree[L, "T"]
    desc = {"family": "union-leaf", "state": state, "L": f"Union[Float['{n1} 3'], Float['{n2} 4']]", "leaves": m, "rngkey": _CUR["rngkey"]}
    bad = []

    def hook(phase, ev):
        if ev["kind"] != "array":
            return
        if phase == "enter":
            ev["before"] = real.raw_transcript()
        elif ev["result"] is not True and ev.get("before") is not None:
            after = real.raw_transcript()
            if after != ev["before"]:
                bad.append((getattr(ev["ann"], "__name__", "?"), ev["before"], after))

    if not checktrace.attach():
        return
    checktrace.start(hook=hook)
    try:
        got = real.check(value, ann)
    finally:
        log = checktrace.stop()
    rec.case((desc["L"], m, sorted(single.items())), nontrivial=True)
    rec.count("nested_array_events", sum(1 for e in log if e["kind"] == "array" and e["depth"] > 0))
    rec.count("nested_array_events.failed", sum(1 for e in log if e["kind"] == "array" and e["depth"] > 0 and e["result"] is not True))
    if bad:
        rec.violation("rollback-nested", desc, f"inside the PyTree check, the array check against {bad[0][0]} failed but changed the bindings: {bad[0][1]!r} -> {bad[0][2]!r}", mechanism="stale-binding-after-False-nested-in-pytree")
        return
    if got == "ok" and L is not typing.Optional[A1] and n1 not in single:
        rs, rv, rt = real.bindings()
        if n1 in rs:
            rec.violation("rollback-nested", desc, f"tree accepted via the second alternative but {n1!r} (bound by the failed first alternative) is still bound: {rs}", mechanism="stale-binding-after-False-nested-in-pytree")


def scen_evil_leaf(rec, rng, single, variadic, state, args):
    import jaxtyping

    n1 = rng.choice(NAMES5)
    L = typing.Union[Evil, Ann("Float", f"{n1} zz")]
    m = rng.randint(1, 4)
    value = [real.np_array((3, 4)) for _ in range(m)]
    if n1 in single:
        value = [real.np_array((single[n1], 4)) for _ in range(m)]
    sname = rng.choice((None, "T"))
    ann = jaxtyping.PyTree[L] if sname is None else jaxtyping.PyTree[L, sname]
    k = rng.randint(1, 2 * m + 1)
    # the is_leaf callback runs on inner nodes as well, so any k may fall into the flatten
    # phase (an exception through jaxlib's C++ flatten): same per-process budget as above
    if _FLATTEN_FAULTS["n"] >= MAX_FLATTEN_FAULTS_PER_PROCESS:
        return scen_pytree(rec, rng, single, variadic, state, args)
    _FLATTEN_FAULTS["n"] += 1
    exc = rng.choice((Injected, InjectedAbort))
    _EvilMeta.plan.update(k=k, exc=exc, n=0)

    def do():
        _EvilMeta.plan["n"] = 0
        return isinstance(value, ann)

    desc = {"family": "evil-leaf", "state": state, "m": m, "k": k, "exc": exc.__name__, "struct": sname}
    # leaf instancechecks 1..m happen during flatten; m+1.. during per-leaf checks, when earlier leaves have bound
    tent = {n1, "zz"} if k > m + 1 else (["struct:T"] if (sname and k > m) else ())
    rec.count(f"fault.evil_leaf.{'flatten' if k <= m else 'leafcheck'}")
    try:
        judge(rec, desc, do, [n1, "zz"], [], ["T"] if sname else [], tent, "pytree")
    finally:
        _EvilMeta.plan.update(k=0)


_FLATTEN_FAULTS = {"n": 0}
MAX_FLATTEN_FAULTS_PER_PROCESS = 600


def scen_faulty_flatten(rec, rng, single, variadic, state, args):
    import jaxtyping

    # Every exception that leaves a custom flatten function through jaxlib's C++
    # tree_flatten leaks one unit of CPython 3.12's C-recursion budget (measured: ~1500 of
    # them make every later C-level recursive call fail with RecursionError - nothing to do
    # with jaxtyping). The number of such injections per process is therefore capped.
    if _FLATTEN_FAULTS["n"] >= MAX_FLATTEN_FAULTS_PER_PROCESS:
        return scen_pytree(rec, rng, single, variadic, state, args)
    _FLATTEN_FAULTS["n"] += 1
    ensure_faulty_registered()
    n1 = rng.choice(NAMES5)
    s = single.get(n1, 3)
    value = (real.np_array((s,)), FaultyNode([real.np_array((s,)), FaultyNode([real.np_array((s,))])]))
    sname = rng.choice((None, "T"))
    ann = jaxtyping.PyTree[Ann("Float", n1)] if sname is None else jaxtyping.PyTree[Ann("Float", n1), sname]
    k = rng.randint(1, 5)
    exc = rng.choice((Injected, InjectedAbort))
    FaultyNode.plan.update(k=k, exc=exc, n=0)

    def do():
        FaultyNode.plan["n"] = 0
        return isinstance(value, ann)

    desc = {"family": "faulty-flatten", "state": state, "k": k, "exc": exc.__name__, "struct": sname}
    rec.count(f"fault.flatten.{k}")
    try:
        judge(rec, desc, do, [n1], [], ["T"] if sname else [], (), "pytree")
    finally:
        FaultyNode.plan.update(k=0)


def scen_unbound_struct(rec, rng, single, variadic, state, args):
    import jaxtyping

    n1 = rng.choice(NAMES5)
    sname = rng.choice(("S T", "T S", "T ...", "... S", "T T"))
    ann = jaxtyping.PyTree[Ann("Float", n1), sname]
    if rng.random() < 0.5:  # bind one of the two names first, for real
        isinstance((1, 2), jaxtyping.PyTree[int, "T"])
    value = {"k": (real.np_array((single.get(n1, 2),)),)}
    desc = {"family": "unbound-struct", "state": state, "struct": sname}
    judge(rec, desc, lambda: isinstance(value, ann), [n1], [], [], (), "pytree")


def scen_question_axes(rec, rng, single, variadic, state, args):
    """'?' axes of a structured PyTree: an EARLIER passing check has already bound the structure and some per-leaf
    axes; a later check against the same structure name binds new per-leaf axes at the first leaves and then fails
    (or raises) at a later leaf - nothing of it may stay"""
    import jaxtyping

    k = rng.choice((2, 3, 4))
    sizes = [rng.choice((2, 3, 4)) for _ in range(k)]
    form = rng.choice(("list", "dict", "tuple"))
    mk = lambda arrs: list(arrs) if form == "list" else tuple(arrs) if form == "tuple" else {f"k{i}": a for i, a in enumerate(arrs)}
    sname = rng.choice(("T", "Q"))
    first = jaxtyping.PyTree[Ann("Float", "?n"), sname]
    t1 = mk([real.np_array((s,)) for s in sizes])
    if not isinstance(t1, first):
        return
    bad_at = rng.randrange(1, k)
    how = rng.choice(("size", "dtype", "annot"))
    spec2 = rng.choice(("?m ?n", "?n ?m", "*?w ?n", "?m ?n"))
    rows = [rng.choice((1, 2, 5)) for _ in range(k)]
    arrs = []
    for i in range(k):
        n_i = sizes[i] + (1 if (i == bad_at and how == "size") else 0)
        shape = (rows[i], n_i) if spec2 != "?n ?m" else (n_i, rows[i])
        arrs.append(real.np_array(shape, "int32" if (i == bad_at and how == "dtype") else "float32"))
    if how == "annot":
        spec2 = spec2 + " zz+1"
        arrs = [real.np_array(tuple(a.shape) + (3,)) for a in arrs]
    second = jaxtyping.PyTree[Ann("Float", spec2), sname]
    t2 = mk(arrs)
    desc = {"family": "question-axes", "state": state, "sizes": sizes, "spec2": spec2, "bad_leaf": bad_at, "how": how, "form": form}
    rec.count("question_axes.later_check_fails_after_binding")
    judge(rec, desc, lambda: isinstance(t2, second), [], [], [], {"?m"}, "pytree")


def scen_unknown_size(rec, rng, single, variadic, state, args):
    """an axis whose size is not known (`None`: a tensor traced with an unknown dimension, a lazy array) is bound like
    any other value: a later concrete size is a mismatch that binds nothing, and the first check still passes"""
    import typing

    import jaxtyping

    nm = rng.choice([n for n in NAMES5 if n not in single] or ["zq"])
    other = rng.choice((2, 3, 5))
    first = jaxtyping.Shaped[typing.Any, f"{nm} {other}"]
    unknown = real.Duck((None, other), "float32")
    if real.check(unknown, first) != "ok":
        rec.open_corner("unknown-size-axis-not-accepted")
        return
    concrete = real.Duck((rng.choice((1, 4, 5)),), "float32")
    desc = {"family": "unknown-size", "state": state, "axis": nm, "concrete": list(concrete.shape)}
    rec.count("unknown_size.bound_then_concrete_size_checked")
    judge(rec, desc, lambda: isinstance(concrete, jaxtyping.Shaped[typing.Any, nm]), [], [], [], (), "array")
    again = real.check(unknown, first)
    if again != "ok":
        rec.violation("idempotence", desc, f"the check that bound {nm}=None passed; after a failing check of the same axis against a concrete size it answers {again}", mechanism="repeat-fails-after-unknown-size")


SCENARIOS = (
    (scen_unknown_size, 3),
    (scen_question_axes, 8),
    (scen_array, 40),
    (scen_array_raise, 10),
    (scen_faulty_duck, 25),
    (scen_pytree, 25),
    (scen_tuple_leaf, 6),
    (scen_union_leaf, 8),
    (scen_evil_leaf, 10),
    (scen_faulty_flatten, 6),
    (scen_unbound_struct, 4),
)


_CUR = {"rngkey": None}
_SAMPLED = set()


def run_case(rec, rng, only=None, rngkey=None):
    _CUR["rngkey"] = rngkey
    args = real.call_args_model(rng.choice((1, 2, 3)), 2)
    total = sum(w for _, w in SCENARIOS)
    r = rng.random() * total
    for fn, w in SCENARIOS:
        r -= w
        if r < 0:
            break
    if only:
        fn = {f.__name__: f for f, _ in SCENARIOS}[only]
    kind = rng.choice(("call", "block"))

    def body():
        single, variadic, state = build_state(rng, args if kind == "call" else {})
        fn(rec, rng, single, variadic, state, args if kind == "call" else {})

    def inner():
        if kind == "call":
            real.in_call_context(args["n"], args["m"], body)
        else:
            real.in_block_context(body)

    if rng.random() < 0.3:
        # the scenario runs one level down: the ENCLOSING scope has bindings of its own under the usual names, and
        # whatever fails, raises or is rolled back inside leaves them exactly as they were
        def outer():
            import jaxtyping

            N = np.ndarray
            isinstance(real.np_array((11, 12, 13)), jaxtyping.Shaped[N, "a b c"])
            isinstance(real.np_array((14, 15, 16, 17)), jaxtyping.Shaped[N, "n m *v"])
            isinstance([0], jaxtyping.PyTree[int, "T"])
            before = real.raw_transcript()
            inner()
            after = real.raw_transcript()
            rec.count("nested.enclosing_scope_compared")
            if before != after:
                rec.violation("rollback-nested", {"rngkey": rngkey, "scenario": fn.__name__, "kind": kind, "enclosing_before": before, "enclosing_after": after}, f"a scope enclosing the scenario {fn.__name__} ({kind}) had {before!r}; after the inner scope ended it has {after!r}", mechanism="enclosing-scope-changed-by-inner-check")

        real.in_block_context(outer)
    else:
        inner()


def suite_arm(rec):
    """the repository's own test suite, run under the check-trace monitor: the rollback
    invariant is asserted on every isinstance event the suite produces"""
    import json
    import os
    import subprocess
    import sys
    import tempfile

    repo = os.environ.get("JTV_REPO", "/repo")
    root = os.path.dirname(os.path.dirname(os.path.dirname(os.path.abspath(__file__))))
    fd, out = tempfile.mkstemp(prefix="jtv_suite_", suffix=".json")
    os.close(fd)
    env = dict(os.environ)
    env["PYTHONPATH"] = repo + os.pathsep + root
    env["JTV_SUITE_MONITOR_OUT"] = out
    try:
        r = subprocess.run([sys.executable, "-m", "pytest", "-q", "-p", "no:cacheprovider", "-p", "jtv.monitor.suite_plugin", "--timeout=900", "test"], cwd=repo, env=env, capture_output=True, text=True, timeout=1500)
        try:
            st = json.load(open(out))
        except Exception:
            rec.inconclusive.append("suite-under-monitor produced no summary: " + (r.stdout + r.stderr)[-300:])
            return
    finally:
        try:
            os.unlink(out)
        except OSError:
            pass
    rec.info["suite_monitor"] = {k: st.get(k) for k in ("attached", "events", "failed_or_raised", "passed")}
    rec.count("suite.events", st.get("events", 0))
    rec.count("suite.failed_or_raised_events", st.get("failed_or_raised", 0))
    for v in st.get("violations", [])[:3]:
        rec.violation("suite-monitor", v, f"in {v['test']}: check against {v['annotation']} answered {v['result']} but print_bindings changed: {v['before']!r} -> {v['after']!r}", mechanism="suite-monitor-stale-binding-after-" + ("False" if v["result"] == "False" else "exception"))


def run_shard(rec, seed, shard, tier):
    if shard["i"] == NSHARDS - 1:
        suite_arm(rec)
    if shard["i"] == 2:
        from .depth_common import arm_checks_near_recursion_limit

        arm_checks_near_recursion_limit(rec, ["array/", "pytree/"])
    GT.ensure_registered()
    for k in range(CASES[tier]):
        key = f"{seed}/C04/{shard['i']}/{k}"
        run_case(rec, random.Random(key), rngkey=key)


def replay(rec, case):
    # the description in the case is for the reader; the rng key regenerates it exactly
    GT.ensure_registered()
    run_case(rec, random.Random(case["rngkey"]), rngkey=case["rngkey"])

"""C01 — an array check decides shape exactly as the dim-string language says.

Oracle: sequential reference model (jtv.model.dims) run on its own copy of the bindings
accumulated by the preceding accepted checks of the same context. After every check the
public print_bindings() transcript must equal the model's bindings.
"""

from __future__ import annotations

import random

from .. import real
from ..gen import annotations as G
from ..model import dims as M

LEVEL = "exploration"
TECHNIQUE = "runtime monitoring: reference-model oracle over generated check sequences (verdict + print_bindings transcript after every check); annotation objects reused across contexts, hostile axis names, call arguments incl. empty *args/**kwargs and defaults; short-lived values whose id() is handed on inside one scope; array types whose instances change over time (weakref proxies, protocols with data members, late ABC registration); scripts run one level below an enclosing scope that binds the same names to other sizes"
LEVEL_TEXT = (
    "Held on every generated context explored (hundreds of thousands of checks per run, all decision branches "
    "counted and required non-zero). Sampling, not proof: the space of dim strings x shapes x prior states is unbounded."
)
LEVEL_NOTE = "Trusts the reference model in jtv/model/dims.py (written from docs/api/array.md) and print_bindings() as the observation of bindings."
RULE = (
    "contexts of 1-6 consecutive isinstance checks against generated dim strings (all token kinds, "
    "modifiers in random order, doc= prefixes, random whitespace, <=1 variadic) with shapes of rank 0-6 "
    "and sizes 0-5 derived from annotation+current bindings and perturbed; every check's verdict "
    "(True/False/AnnotationError) and the print_bindings() transcript after it are compared with the "
    "reference model. A case is one (prior bindings, dim string, shape, array-kind, dtype) tuple; "
    "non-trivial = prior bindings non-empty or annotation has >=2 axes; distinct by that tuple."
)
ASSUMPTIONS = [
    "reference model jtv/model/dims.py encodes the documented semantics correctly (cross-checked by the order-free satisfiability oracle of C02)",
    "print_bindings() is the observation of bindings",
    "open corners (docs silent) are accepted either way and counted, see DESIGN.md C01",
]

CASES = {"quick": 9000, "thorough": 160000}  # contexts per shard
NSHARDS = 16


def shards(tier):
    return [{"i": i} for i in range(NSHARDS)]


def required_counters(tier):
    base = {
        "verdict.ok": 1000,
        "verdict.no": 1000,
        "verdict.annot": 100,
        "br.var.unbound": 100,
        "br.var.eq": 50,
        "br.var.prevB.nowB": 20,
        "br.var.prevB.nowF": 20,
        "br.var.prevF.nowB": 20,
        "br.var.prevF.nowF": 20,
        "br.var.suffix": 100,
        "br.var.prefix": 100,
        "br.size0": 100,
        "br.bcast1.named": 50,
        "br.bcast1.fixed": 20,
        "br.bcast1.symbolic": 10,
        "br.symbolic.eval": 100,
        "br.symbolic.args": 20, "br.symbolic.mutable_arg": 20,
        "br.rank_deficit": 20,
        "br.named.bound": 200,
        "br.named.new": 200,
        "conj.arraytype_fail": 20,
        "conj.dtype_fail": 20,
        "conj.any_missing_attr": 5,
        "transcripts_compared": 1000,
        "prior_nonempty": 1000, "annotation_object_rechecked": 5000, "br.named.hostile_axis_name": 500, "temporaries.checks": 100, "array_type_membership.steps": 30, "enclosed_scripts": 300,
    }
    return base


DT_TABLE = {
    # category -> set of numpy dtype names it contains (small, hand-written from docs)
    "Float": {"float16", "float32", "float64", "bfloat16"},
    "Int": {"int8", "int16", "int32", "int64"},
    "UInt": {"uint8", "uint16", "uint32", "uint64"},
    "Bool": {"bool"},
    "Complex": {"complex64", "complex128"},
    "Integer": {"int8", "int16", "int32", "int64", "uint8", "uint16", "uint32", "uint64"},
    "Inexact": {"float16", "float32", "float64", "bfloat16", "complex64", "complex128"},
    "Real": {"float16", "float32", "float64", "bfloat16", "int8", "int16", "int32", "int64", "uint8", "uint16", "uint32", "uint64"},
    "Num": {"float16", "float32", "float64", "bfloat16", "int8", "int16", "int32", "int64", "uint8", "uint16", "uint32", "uint64", "complex64", "complex128"},
    "Shaped": None,
    "Float32": {"float32"},
    "Int8": {"int8"},
    "UInt8": {"uint8"},
    "Float64": {"float64"},
}
DTYPES = ("float32", "float32", "float32", "float64", "int32", "int8", "uint8", "bool", "complex64", "float16")


def count_branches(rec, toks, shape, single, variadic, verdict):
    iv = next((i for i, t in enumerate(toks) if M.is_variadic(t)), None)
    if 0 in shape:
        rec.count("br.size0")
    if iv is not None:
        if len(shape) < len(toks) - 1:
            rec.count("br.rank_deficit")
        if iv > 0:
            rec.count("br.var.prefix")
        if iv < len(toks) - 1:
            rec.count("br.var.suffix")
        vt = toks[iv]
        if vt.kind == "namedvar" and verdict in ("ok", "no"):
            if vt.name in variadic:
                pb = variadic[vt.name][0]
                rec.count(f"br.var.prev{'B' if pb else 'F'}.now{'B' if vt.bcast else 'F'}")
                if verdict == "ok":
                    rec.count("br.var.eq")
            else:
                rec.count("br.var.unbound")
    elif len(shape) != len(toks):
        rec.count("br.rank_mismatch")
    if len(shape) >= len(toks) - (1 if iv is not None else 0):
        # axis-level branches (approximate alignment for counting only)
        fixed = [t for t in toks if not M.is_variadic(t)]
        if iv is None:
            sizes = shape if len(shape) == len(toks) else ()
        else:
            nsuf = len(toks) - iv - 1
            sizes = tuple(shape[:iv]) + (tuple(shape[len(shape) - nsuf :]) if nsuf else ())
        for t, s in zip(fixed, sizes):
            if t.bcast and s == 1:
                rec.count(f"br.bcast1.{t.kind}")
            elif t.kind == "symbolic":
                rec.count("br.symbolic.eval")
                if "{" in t.name:
                    rec.count("br.symbolic.args")
            elif t.kind == "named":
                rec.count("br.named.bound" if t.name in single else "br.named.new")


def make_value(rng, kind, shape, dtype):
    if kind == "np":
        return real.np_array(shape, dtype)
    if kind == "jax":
        return real.jax_array(shape, dtype if dtype not in ("float64", "complex64") else "float32")
    if kind == "duck":
        return real.Duck(shape, dtype)
    if kind == "noshape":
        return real.NoShape()
    if kind == "nodtype":
        return real.NoDtype()
    raise AssertionError(kind)


def dtype_name_of(kind, dtype):
    if kind == "jax" and dtype in ("float64", "complex64"):
        return "float32"
    return dtype


_ANN_OBJECTS = {}


def build_annotation(cat, arr, spec, reuse=True):
    """The same annotation OBJECT is handed out again for an equal (category, array type, dim string):
    over a run each object is checked under many different prior bindings and argument values, so a
    verdict remembered per annotation object (instead of being recomputed from the bindings) shows."""
    import typing

    import jax
    import numpy as np

    import jaxtyping

    key = (cat, arr, spec)
    if reuse and key in _ANN_OBJECTS:
        return _ANN_OBJECTS[key]
    A = {"np": np.ndarray, "jax": jax.Array, "any": typing.Any, "duck": real.Duck}[arr]
    ann = getattr(jaxtyping, cat)[A, spec]
    if reuse and len(_ANN_OBJECTS) < 50000:
        _ANN_OBJECTS[key] = ann
    return ann


def expected_conjunct(cat, arr, vkind, dtype):
    """array-type and dtype conjuncts of the statement -> 'pass' | 'arraytype' | 'attrs' | 'dtype'"""
    if arr == "any":
        if vkind in ("noshape", "nodtype"):
            return "attrs"
    else:
        ok = {"np": vkind == "np", "jax": vkind == "jax", "duck": vkind == "duck"}[arr]
        if not ok:
            return "arraytype"
    allowed = DT_TABLE[cat]
    if allowed is not None and dtype_name_of(vkind, dtype) not in allowed:
        return "dtype"
    return "pass"


_SPEC_POOL = []
HOSTILE_AXIS_NAMES = [
    {"a": "e", "b": "tau", "c": "gamma"},
    {"a": "pi", "b": "inf", "c": "log"},
    {"a": "len", "b": "abs", "c": "int"},
    {"a": "sum", "b": "id", "c": "exp"},
    {"a": "np", "b": "jaxtyping", "c": "self"},
]


def gen_check(rng, single, variadic, args, tier):
    """-> dict describing one check (all JSON-able)."""
    max_rank = 6 if tier == "thorough" else 5
    if _SPEC_POOL and rng.random() < 0.35:
        spec = rng.choice(_SPEC_POOL)  # an annotation seen before (same object, see build_annotation)
    else:
        spec = G.gen_spec(rng, max_axes=5, allow_tree=rng.random() < 0.03)
        if rng.random() < 0.15:
            # axis names that are also names of builtins / math functions and constants: a bound axis
            # always wins over anything else an implementation may put into the evaluation namespace
            import re as _re

            m = rng.choice(HOSTILE_AXIS_NAMES)
            spec = _re.sub(r"\b([abc])\b", lambda mo: m[mo.group(1)], spec)
        if len(_SPEC_POOL) < 300:
            _SPEC_POOL.append(spec)
        else:
            _SPEC_POOL[rng.randrange(300)] = spec
    toks = M.parse(spec)  # generator only emits legal strings; a DimValueError here is a harness bug
    if rng.random() < 0.62:
        shape = G.gen_shape_for(rng, toks, single, variadic, args, max_rank=max_rank)
    else:
        shape = G.gen_random_shape(rng, max_rank)
    r = rng.random()
    cat, arr, vkind, dtype = "Float", "np", "np", "float32"
    if r < 0.12:
        cat = rng.choice(list(DT_TABLE))
        dtype = rng.choice(DTYPES)
    elif r < 0.2:
        arr = rng.choice(("np", "jax", "any", "duck"))
        vkind = rng.choice(("np", "jax", "duck"))
        cat = rng.choice(("Float", "Shaped", "Float32"))
    elif r < 0.23:
        arr = "any"
        vkind = rng.choice(("noshape", "nodtype", "duck", "np"))
        cat = "Shaped"
    elif r < 0.30:
        arr = vkind = "jax"
    return dict(spec=spec, shape=list(shape), cat=cat, arr=arr, vkind=vkind, dtype=dtype)


def model_step(c, single, variadic, args):
    """-> (allowed verdict set, model verdict, single', variadic', note)"""
    toks = M.parse(c["spec"])
    conj = expected_conjunct(c["cat"], c["arr"], c["vkind"], c["dtype"])
    if c["vkind"] in ("noshape", "nodtype"):
        shape = ()
    else:
        shape = tuple(c["shape"])
    v, why, s1, v1 = M.match(toks, shape, single, variadic, args)
    if conj != "pass":
        allowed = {"no"}
        if v == "annot":
            allowed.add("annot")  # open: order of conjuncts vs. raising axis not fixed by the statement
        if c["vkind"] in ("noshape", "nodtype") and conj != "attrs":
            allowed |= {"exc:AttributeError"}  # value lacks the attribute being inspected; not constrained
        return allowed, "no", single, variadic, "conj:" + conj, None
    if v == "open":
        return None, v, single, variadic, why, None
    if v == "annot":
        lv, lwhy, ls, lvv = M.match(toks, shape, single, variadic, args, lenient=True)
        allowed = {"annot"}
        alt = None
        if lv == "no":
            allowed.add("no")
        elif lv == "ok":
            allowed.add("ok")
            alt = (ls, lvv)
        return allowed, v, single, variadic, why, alt
    return {v}, v, s1, v1, why, None


_SEEN_ANN = set()


def run_context(rec, rng, tier, script=None, ctx=None):
    """Generate (or replay) one context; returns the JSON-able script."""
    replaying = script is not None
    if not replaying:
        ctx = {"kind": rng.choice(("call", "block", "block")), "n": rng.choice((0, 1, 2, 3)), "m": rng.choice((1, 2)), "hk": rng.choice((1, 2, 3)), "extra": rng.choice(([], [], [], [5], [1, 2])), "opts": rng.choice(({}, {}, {}, {"z": 1}))}
        nchecks = rng.choice((1, 2, 3, 3, 4, 5, 6))
        script = []
    else:
        nchecks = len(script)
    holder = real.Holder(ctx.get("hk", 2))
    args = real.call_args_model(ctx["n"], ctx["m"], holder, ctx.get("extra", ()), ctx.get("opts")) if ctx["kind"] == "call" else {}
    out = {"ctx": ctx, "script": script}

    def body():
        single, variadic = {}, {}
        for i in range(nchecks):
            if replaying:
                c = script[i]
            else:
                if args and rng.random() < 0.25:
                    holder.k = rng.choice((1, 2, 3, 4))  # the argument's state changes between checks
                c = gen_check(rng, single, variadic, args, tier)
                c["hk"] = holder.k
                script.append(c)
            holder.k = c.get("hk", holder.k)
            if "{h." in c["spec"] and args:
                rec.count("br.symbolic.mutable_arg")
            toks = M.parse(c["spec"])
            try:
                ann = build_annotation(c["cat"], c["arr"], c["spec"])
            except Exception as e:  # noqa
                rec.violation("construct", out, f"legal dim string {c['spec']!r} rejected: {type(e).__name__}: {e}", mechanism="construct-rejects-legal")
                return
            x = make_value(rng, c["vkind"], c["shape"], c["dtype"])
            allowed, mv, s1, v1, why, alt = model_step(c, single, variadic, args)
            if allowed is None:
                rec.open_corner("symbolic-expression-raises-other")
                return
            got = real.check(x, ann)
            key = (sorted(single.items()), sorted((k, list(v)) for k, v in variadic.items()), c["spec"].split(), c["shape"], c["cat"], c["arr"], c["vkind"], c["dtype"], sorted((k, v if not isinstance(v, real.Holder) else v.k) for k, v in args.items()))
            rec.case(key, nontrivial=bool(single or variadic) or len(toks) >= 2)
            if any(t.name in ("e", "tau", "pi", "len", "sum", "np") for t in toks if t.kind == "named"):
                rec.count("br.named.hostile_axis_name")
            if id(ann) in _SEEN_ANN:
                rec.count("annotation_object_rechecked")
            _SEEN_ANN.add(id(ann))
            if single or variadic:
                rec.count("prior_nonempty")
            rec.count("verdict." + (got if got in ("ok", "no", "annot") else "exc"))
            if why.startswith("conj:"):
                rec.count({"arraytype": "conj.arraytype_fail", "dtype": "conj.dtype_fail", "attrs": "conj.any_missing_attr"}[why[5:]])
            else:
                count_branches(rec, toks, tuple(c["shape"]), single, variadic, mv)
            if len(allowed) > 1:
                rec.open_corner("raising-axis-vs-definite-mismatch-or-late-binder")
            if got not in allowed:
                rec.violation(
                    "verdict",
                    {"ctx": ctx, "script": script[: i + 1]},
                    f"check #{i} {c}: model={sorted(allowed)} ({why}) real={got}; bindings before={single},{variadic}",
                    mechanism=classify(c, got, allowed),
                )
                return
            if got == "ok" and mv != "ok":
                s1, v1 = alt
            elif got != "ok":
                s1, v1 = single, variadic
            # transcript after the check
            rs, rv, rt = real.bindings()
            ms, mvv = M.transcript(s1, v1)
            rec.count("transcripts_compared")
            if rs != ms or rv != mvv or rt:
                rec.violation(
                    "bindings",
                    {"ctx": ctx, "script": script[: i + 1]},
                    f"after check #{i} {c} (real verdict {got}): model bindings {ms},{mvv} real {rs},{rv},{rt}",
                    mechanism="bindings-after-" + got,
                )
                return
            memo = real.internal_memo()
            if memo is not None:
                rec.count("whitebox_memo_compared")
                try:
                    wb = {k: (bool(b), tuple(sh)) for k, (b, sh) in memo[1].items()}
                except Exception:
                    wb = None
                if wb is not None and wb != {k: (bool(b), tuple(sh)) for k, (b, sh) in v1.items()}:
                    rec.violation(
                        "variadic-broadcast-bit",
                        {"ctx": ctx, "script": script[: i + 1]},
                        f"after check #{i}: model variadic memo {v1} real {memo[1]}",
                        mechanism="variadic-memo-bit",
                    )
                    return
            single, variadic = s1, v1

    def inner():
        if ctx["kind"] == "call":
            real.in_call_context(ctx["n"], ctx["m"], body, holder, *ctx.get("extra", ()), **ctx.get("opts", {}))
        else:
            real.in_block_context(body)

    if ctx.get("enclosed", (not replaying) and rng.random() < 0.2):
        # "sizes bound in THAT context": the script runs one level down, inside a scope that has bound the usual axis
        # names to other sizes - the script's checks neither see nor change them
        ctx["enclosed"] = True

        def outer():
            import numpy as np

            import jaxtyping

            isinstance(real.np_array((11, 12, 13)), jaxtyping.Shaped[np.ndarray, "a b c"])
            isinstance(real.np_array((14, 15, 16, 17)), jaxtyping.Shaped[np.ndarray, "n m *v"])
            before = real.raw_transcript()
            inner()
            after = real.raw_transcript()
            rec.count("enclosed_scripts")
            if before != after:
                rec.violation("enclosing-scope", {"ctx": ctx, "script": script}, f"the enclosing scope's bindings changed while the script ran one level down: {before!r} -> {after!r}", mechanism="enclosing-scope-changed-by-inner-check")

        real.in_block_context(outer)
    else:
        ctx["enclosed"] = False
        inner()
    return out


def classify(c, got, allowed):
    return f"verdict-{'/'.join(sorted(allowed))}-got-{got}"


def run_shard(rec, seed, shard, tier):
    import warnings

    warnings.filterwarnings("ignore")
    if shard.get("i", 1) % 2 == 1:
        real.hostile_prelude(rec)  # a past: nothing the check decides may depend on it
        real.toplevel_probes(rec, None, "after the hostile prelude")
    if shard["i"] % 4 == 1:
        real.temporaries_probe(rec, "C01")  # short-lived values whose id() is handed on
    if shard["i"] % 4 in (0, 3):
        real.array_type_membership_probe(rec, "C01")
    n = CASES[tier]
    for k in range(n):
        rng = random.Random(f"{seed}/C01/{shard['i']}/{k}")
        out = run_context(rec, rng, tier)
        if k < 2 and shard["i"] == 0:
            rec.sample(out)
        # top level must stay stateless
        if k % 500 == 0:
            t = real.raw_transcript()
            if t.strip():
                rec.violation("toplevel-not-stateless", out, repr(t), mechanism="toplevel-bindings")


def replay(rec, case):
    run_context(rec, random.Random(0), "quick", script=case["script"], ctx=case["ctx"])

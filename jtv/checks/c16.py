"""C16 — '?' axes are per-leaf-position axes of exactly one structured PyTree."""

from __future__ import annotations

import random
import typing
import warnings

import numpy as np

from .. import real
from ..gen import trees as GT
from ..model import dims as M
from ..model import leaftypes as LT
from ..model import trees as TM

LEVEL = "exploration"
TECHNIQUE = "runtime monitoring: reference model in which '?name' at leaf i of structure T is the fresh axis (T,i,name), compared with decorated-call and manual-check verdicts on generated tree tuples; misuse forms must raise AnnotationError; structured sibling PyTrees in the leaf type; arrays whose shape property makes nested jaxtyped calls; structure names spelled with whitespace; short-lived trees in one scope; symbolic axes naming the plain axis next to a per-leaf '?' axis of the same name; scripted series over a broadcastable per-leaf variadic axis '#*?s' next to the plain '*s'"
LEVEL_TEXT = (
    "Held on every generated pair/triple of trees with independently drawn per-leaf sizes, leaf types with '?n', '*?n', "
    "'?n m' alone and inside Union/tuple/structure-less PyTree, both typecheckers and manual checks. Sampling, not proof."
)
LEVEL_NOTE = "Trusts the tree/leaf-type/dims reference models; verdicts only (the naming of '?' axes in print_bindings is not part of the property)."
RULE = (
    "one case = (leaf type with '?' axes, 2-3 trees sharing or not sharing a structure, per-leaf shapes, optional plain axis "
    "of the same name bound to a conflicting size, call style); non-trivial = >=2 leaf positions or a plain same-name axis; "
    "distinct by (leaf type, tree descriptions, style)."
)
ASSUMPTIONS = ["a '?' axis is identified by (structure name, leaf position, axis name)"]
CASES = {"quick": 1200, "thorough": 15000}
NSHARDS = 16

S = lambda spec: ("arr", "Shaped", spec)
LEAFTYPES = [
    S("?n"),
    S("*?n"),
    S("?n m"),
    S("m ?n"),
    S("?n n"),
    S("n ?n m"),
    S("?n ?k"),
    S("#?n"),
    ("union", [S("?n 3"), S("?n")]),
    ("tuple", [S("?n"), S("m")]),
    ("tuple", [S("?n"), S("?n 2")]),
    ("pytree", S("?n")),
    ("pytree", S("?n m")),
    ("union", [("int",), S("?n")]),
    # first alternative binds '?n' and then fails on a later axis (rollback of a '?' binding), second must pass
    ("union", [S("?n 3"), S("?n 4")]),
    ("union", [S("?n 3"), S("3 ?n")]),
    ("union", [S("?n 3"), S("_ 4")]),
    ("union", [S("?n ?k 9"), S("?k ?n _")]),
    # '?' axes inside an annotation that is EXTENDED by nesting (Image = Shaped[A, "?h ?w"]; Float[Image, "2"])
    ("arrnest", "Shaped", "2", "?n"),
    ("arrnest", "Shaped", "m", "?n ?k"),
    ("arrnest", "Shaped", "?n", "2"),
    ("arrnest", "Shaped", "", "*?n"),
    # a structure-less PyTree alternative that does NOT match the (array) leaf, then a '?' alternative
    ("union", [("pytree", ("int",)), S("?n")]),
    ("union", [("pytree", ("str",)), S("*?n")]),
    # the leaf check itself raises AnnotationError after '?n' was bound (state must not outlive the check)
    S("?n zz+1"),
    # a symbolic axis that names the PLAIN axis 'n' next to the per-leaf axis '?n': the expression means the plain one
    # broadcastable per-leaf variadic axes, seen again and again at the same leaf position; next to the plain '*s'
    S("#*?s"),
    S("#*?s 2"),
    S("#*?s n"),
    S("?n n+1"),
    S("n ?n n+1"),
    ("tuple", [S("?n"), S("n+1 ?n")]),
    # a '?' axis used after a structure-less inner PyTree within the same leaf
    ("tuple", [("pytree", S("?n")), S("?n 2")]),
    # a STRUCTURED PyTree as a sibling inside the leaf type: the '?' axis next to it lies inside exactly one
    # structured PyTree (usable), also when the sibling has no leaves, comes second, or holds arrays
    ("tuple", [("spytree", ("int",), "C", 2), S("?n")]),
    ("tuple", [("spytree", ("int",), "C", 0), S("?n m")]),
    ("tuple", [S("?n"), ("spytree", ("int",), "C", 1)]),
    ("tuple", [("spytree", S("m"), "C", 2), S("*?n")]),
    ("tuple", [("spytree", ("int",), "C", 1), ("pytree", S("?n"))]),
    # ... and a '?' axis beneath BOTH structured PyTrees is ambiguous: AnnotationError, with or without leaves in the sibling
    ("tuple", [("spytree", ("int",), "C", 2), ("spytree", S("?n"), "W", 1)]),
    ("tuple", [("spytree", ("int",), "C", 0), ("spytree", S("?n"), "W", 2)]),
    ("spytree", S("?n"), "W", 2),
]


def shards(tier):
    return [{"i": i} for i in range(NSHARDS)]


def required_counters(tier):
    return {
        "verdict.ok": 300,
        "verdict.reject": 300,
        "plain_same_name_conflict": 100,
        "inner_pytree_ge2_leaves": 50,
        "misuse.toplevel": 30,
        "misuse.unstructured": 30,
        "misuse.two_structured": 30,
        "same_position_disagree": 100,
        "different_positions_differ_ok": 100,
        "style.typeguard": 200,
        "style.beartype": 200,
        "style.manual": 200,
        "sibling_structured.usable": 50, "keypath.cases": 40, "toplevel_structured_checks_judged": 200,
        "sibling_structured.ambiguous": 30, "temporaries.checks": 100, "broadcast_variadic.steps": 18,
    }


def leaf_value(rng, L, sizes):
    """a value for leaf type L; sizes: dict axis-name -> size for this leaf position"""
    k = L[0]
    if k == "arrnest":
        return leaf_value(rng, ("arr", L[1], (L[2] + " " + L[3]).strip()), sizes)
    if k == "arr":
        toks = M.parse(L[2])
        shape = []
        for t in toks:
            if t.kind == "namedvar":
                shape.extend(sizes.get("*" + t.name, (sizes.get(t.name, 2),)))
            elif t.kind == "fixed":
                shape.append(t.size)
            elif t.kind == "named":
                shape.append(1 if (t.bcast and rng.random() < 0.3) else sizes.get(t.name, 2))
            else:
                shape.append(2)
        if rng.random() < 0.08:
            return real.hooked_shape_array(shape)  # reading .shape makes (nested) jaxtyped calls in the middle of the leaf check
        return real.np_array(shape)
    if k == "tuple":
        return tuple(leaf_value(rng, x, sizes) for x in L[1])
    if k == "union":
        alts = [a for a in L[1] if a[0] != "pytree"] or L[1]
        return leaf_value(rng, rng.choice(alts), sizes)
    if k == "int":
        return rng.choice((1, 5))
    if k == "str":
        return "s"
    if k == "spytree":
        return tuple(leaf_value(rng, L[1], sizes) for _ in range(L[3]))
    if k == "pytree":
        n = rng.choice((1, 2, 2, 3))
        kids = [leaf_value(rng, L[1], sizes) for _ in range(n)]
        return rng.choice((list, tuple))(kids) if n > 1 or rng.random() < 0.5 else kids[0]
    raise AssertionError(L)


def gen_case(rng):
    L = rng.choice(LEAFTYPES)
    # a skeleton with marker leaves
    holder = []
    skel = GT.gen_tree(rng, lambda r: holder.append(0) or ("L", len(holder) - 1), depth=rng.choice((1, 2, 3)), fanout=3, p_leaf=0.35, kinds=("tuple", "list", "dict", "none", "nt", "custom"))
    npos = len(holder)
    ntrees = rng.choice((2, 2, 3))
    m_size = rng.choice((2, 3))
    base = [{"n": rng.choice((1, 2, 3, 4)), "k": rng.choice((1, 2)), "m": m_size, "*n": tuple(rng.choice((1, 2, 3)) for _ in range(rng.choice((0, 1, 2))))} for _ in range(npos)]
    trees = []
    for ti in range(ntrees):
        sizes = [dict(b) for b in base]
        mode = rng.random()
        if mode < 0.35 and npos:
            p = rng.randrange(npos)
            sizes[p]["n"] = sizes[p]["n"] + 1  # same position disagrees with the other trees
            sizes[p]["*n"] = sizes[p]["*n"] + (2,)
        diff_struct = mode > 0.9
        if 0.35 <= mode < 0.45 and npos:
            p = rng.randrange(npos)
            sizes[p]["m"] = sizes[p]["m"] + 1  # a PLAIN axis of the leaf type differs at one position: never per-leaf
        trees.append({"sizes": sizes, "diff_struct": diff_struct})
    plain = None
    if rng.random() < 0.4:
        plain = {"name": "n", "size": rng.choice((1, 2, 3, 4, 7)), "first": rng.random() < 0.5}
    return {"L": L, "skel": GT.describe(skel), "npos": npos, "trees": trees, "plain": plain, "seed": rng.random()}


def materialise(case):
    rng = random.Random(case["seed"])
    skel = GT.rebuild(case["skel"])
    is_marker = lambda y: type(y) is tuple and len(y) == 2 and y[0] == "L"
    vals = []
    for t in case["trees"]:
        x = GT.map_leaves(skel, lambda y: leaf_value(rng, case["L"], t["sizes"][y[1]]), is_leaf=is_marker)
        if t["diff_struct"]:
            x = [x, leaf_value(rng, case["L"], t["sizes"][0] if t["sizes"] else {"n": 2, "m": 2})]
        vals.append(x)
    return vals


def model(case, vals, struct_names):
    """sequential: params in order; -> 'ok' | 'reject' | 'annot'"""
    L = case["L"]
    s, v, trees = {}, {}, {}
    plain = case["plain"]
    seq = [("tree", i) for i in range(len(vals))]
    if plain:
        seq.insert(0 if plain["first"] else len(seq), ("plain", None))
    for kind, i in seq:
        if kind == "plain":
            vd, why, s, v = M.match(M.parse(plain["name"]), (plain["size"],), s, v, {})
            if vd != "ok":
                return "reject"
            continue
        x = vals[i]
        if x is None:
            continue
        T = struct_names[i]
        isl = lambda y: LT.matches(y, L, {}, {}, True)[0]
        st = TM.struct(x, isl)
        if T in trees:
            if trees[T] != st:
                return "reject"
        else:
            trees[T] = st
        for li, leaf in enumerate(TM.leaves(x, isl)):
            try:
                ok, s, v = LT.matches(leaf, L, s, v, False, label=f"<{T}#{li}>")
            except LT.Annot:
                return "annot"
            if not ok:
                return "reject"
    return "ok"


def classify(e):
    from jaxtyping import AnnotationError

    if isinstance(e, AnnotationError):
        return "annot"
    if isinstance(e, TypeError) or "Violation" in type(e).__name__:
        return "reject"
    return "exc:" + type(e).__name__


def run_real(case, vals, struct_names, style):
    import beartype
    import typeguard

    import jaxtyping
    from jaxtyping import jaxtyped

    T = LT.build(case["L"])
    # the structure name may be written with surrounding whitespace (the README writes " T"): every spelling of
    # one name is that name - same structure binding, same '?' axes
    spell = random.Random(case["seed"] + 1)
    anns = [jaxtyping.PyTree[T, spell.choice(("{}", "{}", " {}", "{} ", "\t{}", " {} ")).format(sn)] for sn in struct_names]
    plain = case["plain"]
    items = [(f"t{i}", anns[i], vals[i]) for i in range(len(vals))]
    if plain:
        it = ("p", jaxtyping.Shaped[np.ndarray, plain["name"]], real.np_array((plain["size"],)))
        items.insert(0 if plain["first"] else len(items), it)
    if style == "manual":
        def body():
            for name, ann, val in items:
                if not isinstance(val, ann):
                    return "reject"
            return "ok"
        try:
            return real.in_block_context(body)
        except Exception as e:  # noqa
            return classify(e)
    checker = {"typeguard": typeguard.typechecked, "beartype": beartype.beartype}[style]
    ns = {f"T_{n}": a for n, a, _ in items}
    ns["__name__"] = "jtv_generated"
    real.exec_src(f"def f({', '.join(f'{n}: T_{n}' for n, _, _ in items)}):\n    return None\n", ns)
    fn = jaxtyped(typechecker=checker)(ns["f"])
    try:
        fn(*[v for _, _, v in items])
        return "ok"
    except Exception as e:  # noqa
        return classify(e)


def run_case(rec, rng, rngkey=None):
    import jaxtyping

    case = gen_case(rng)
    vals = materialise(case)
    struct_names = ["T"] * len(vals)
    if rng.random() < 0.15 and len(vals) >= 2:
        struct_names[-1] = "U"  # a different structure name: independent '?' axes
    mv = model(case, vals, struct_names)
    desc = {"L": LT.show(case["L"]), "trees": [GT.describe(x) for x in vals], "structs": struct_names, "plain": case["plain"], "rngkey": rngkey}
    sizes0 = case["trees"][0]["sizes"]
    differ = len({d["n"] for d in sizes0}) > 1
    if case["plain"] and any(d["n"] != case["plain"]["size"] for d in sizes0):
        rec.count("plain_same_name_conflict")
    if any(t["sizes"] != sizes0 for t in case["trees"][1:]) and struct_names[-1] == "T":
        rec.count("same_position_disagree")
    if differ and mv == "ok":
        rec.count("different_positions_differ_ok")
    if "pytree" in repr(case["L"]):
        rec.count("inner_pytree_ge2_leaves")
    if "spytree" in repr(case["L"]):
        rec.count("sibling_structured." + ("ambiguous" if "'W'" in repr(case["L"]) else "usable"))
    for style in ("typeguard", "beartype", "manual"):
        got = run_real(case, vals, struct_names, style)
        rec.case((desc["L"], desc["trees"], struct_names, case["plain"], style), nontrivial=case["npos"] >= 2 or bool(case["plain"]))
        rec.count("style." + style)
        rec.count("verdict." + (got if got in ("ok", "reject", "annot") else "other"))
        if got != mv and mv == "annot" and got == "reject" and "'W'" in repr(case["L"]):
            # the tree is rejected for its STRUCTURE (W or T already bound to another one) before any '?' axis is
            # looked up: which structure W gets bound to is not modelled, and either answer refuses the call
            rec.open_corner("ambiguous-?-vs-structure-mismatch-first")
            continue
        if got != mv:
            mech = f"{'inner-pytree-' if 'pytree' in repr(case['L']) else ''}model-{mv}-real-{got}"
            rec.violation("verdict", dict(desc, style=style), f"{desc['L']} style={style}: model {mv}, real {got}; trees={desc['trees']} plain={case['plain']}", mechanism=mech)
    # the same trees checked OUTSIDE every context (each check stateless there), whatever they answer: afterwards a
    # '?' axis outside a structured PyTree is still misuse (a context that ends would hide a leaf position left behind)
    T0 = LT.build(case["L"])
    for x in vals[:2]:
        try:
            top = isinstance(x, jaxtyping.PyTree[T0, "T"])
        except Exception as e:  # noqa
            top = classify(e)
        # a tree that is fine on its own inside a context is fine outside one too (there every leaf check is
        # stateless - more permissive, never an AnnotationError for a '?' axis inside ONE structured PyTree)
        if "'W'" not in repr(case["L"]) and model(dict(case, plain=None), [x], ["T"]) == "ok":
            rec.count("toplevel_structured_checks_judged")
            if top is not True:
                rec.violation("verdict", dict(desc, style="toplevel"), f"PyTree[{desc['L']}, 'T'] checked outside every context on a tree that the model accepts on its own: {top}", mechanism=f"toplevel-structured-check-{top}")
    try:
        isinstance(real.np_array((2,)), jaxtyping.Shaped[np.ndarray, "?n"])
        got_top = "ok"
    except Exception as e:  # noqa
        got_top = classify(e)
    rec.count("toplevel_question_probe")
    if got_top != "annot":
        rec.violation("misuse", {"form": "toplevel-after-toplevel-checks", "L": desc["L"], "trees": desc["trees"][:2], "rngkey": rngkey}, f"after checking the trees against PyTree[{desc['L']}, 'T'] outside every context, '?n' outside a structured PyTree answered {got_top} (expected AnnotationError)", mechanism="leaf-position-left-behind-at-top-level")
        try:
            from jaxtyping import _storage as _S

            _S._treepath_storage.value = None  # repair harness state so that later cases are judged on their own
        except Exception:
            pass
    # misuse forms
    arr = real.np_array((2,))
    Sn = jaxtyping.Shaped[np.ndarray, rng.choice(("?n", "*?n", "?n m", "m ?n"))]
    val = arr if Sn.dim_str.count(" ") == 0 else real.np_array((2, 3))
    if rng.random() < 0.3:  # the '?' axis sits in the inner annotation of a nested one
        Sn = jaxtyping.Float[jaxtyping.Shaped[np.ndarray, "?n"], "3"]
        val = real.np_array((3, 2))
    tree = rng.choice(([val], (val, val), {"a": val}, [[val], val]))
    for name, ann, x in (
        ("toplevel", Sn, val),
        ("unstructured", jaxtyping.PyTree[Sn], tree),
        ("two_structured", jaxtyping.PyTree[jaxtyping.PyTree[Sn, "S"], "T"], tree),
    ):
        got = real.in_block_context(lambda: real.check(x, ann))
        rec.count("misuse." + name)
        rec.case(("misuse", name, Sn.dim_str, repr(GT.describe(tree))), nontrivial=False)
        if got != "annot":
            rec.violation("misuse", {"form": name, "dims": Sn.dim_str, "tree": GT.describe(tree), "rngkey": rngkey}, f"'?' {name}: expected AnnotationError, got {got}", mechanism=f"misuse-{name}-{got}")


def run_broadcast_variadic_cases(rec):
    """a broadcastable per-leaf variadic axis `#*?s`: what a leaf position has accumulated over several trees of one
    structure stays with that position (it grows by broadcasting, and rejects what no longer fits), and the plain
    `*s` of the same name around it is a different axis altogether"""
    import jaxtyping

    N = np.ndarray

    def A(*shape):
        return np.zeros(shape, dtype="float32")

    for style in ("fresh-annotation-each-time", "one-annotation-object"):
        P0 = jaxtyping.PyTree[jaxtyping.Float[N, "#*?s"], "T"]
        S0 = jaxtyping.Float[N, "*s"]
        P = (lambda: P0) if style == "one-annotation-object" else (lambda: jaxtyping.PyTree[jaxtyping.Float[N, "#*?s"], "T"])
        S = (lambda: S0) if style == "one-annotation-object" else (lambda: jaxtyping.Float[N, "*s"])

        def body():
            return [
                ("plain *s binds (7,)", real.check(A(7), S()), "ok"),
                ("tree 1: position 0 is (1,3)", real.check((A(1, 3), A(2)), P()), "ok"),
                ("tree 2: position 0 is (4,3) - broadcasts", real.check((A(4, 3), A(2)), P()), "ok"),
                ("tree 3: position 0 is (5,3) - no longer fits (4,3)", real.check((A(5, 3), A(2)), P()), "no"),
                ("tree 4: position 0 is (4,3) again", real.check((A(4, 3), A(2)), P()), "ok"),
                ("tree 5: position 1 is (3,) - does not fit (2,)", real.check((A(4, 3), A(3)), P()), "no"),
                ("plain *s is still (7,)", real.check(A(7), S()), "ok"),
                ("plain *s rejects (2,)", real.check(A(2), S()), "no"),
                ("plain *s rejects (4,3)", real.check(A(4, 3), S()), "no"),
            ]

        out = real.in_block_context(body)
        rec.count("broadcast_variadic.steps", len(out))
        rec.case(("broadcast-variadic", style), True)
        for what, got, want in out:
            if got != want:
                rec.violation("verdict", {"broadcast_variadic": style, "step": what, "all": [[w, g, x] for w, g, x in out]}, f"PyTree[Float[ndarray, '#*?s'], 'T'] next to Float[ndarray, '*s'] ({style}): {what} -> {got}, expected {want}", mechanism="per-leaf-broadcast-variadic-" + ("leaks-into-plain-axis" if what.startswith("plain") else "position-forgets-what-it-accumulated"))
                return


def run_keypath_cases(rec):
    """leaf POSITIONS are what '?' axes hang on, whatever the keys along the way look like: dictionaries whose key
    paths read alike ('enc' -> 'w' and the single key 'enc/w', a list index and the key 'layers/0', keys that contain
    spaces or brackets) still have distinct positions"""
    import beartype
    import typeguard

    import jaxtyping
    from jaxtyping import jaxtyped

    A_ = lambda n: real.np_array((n,))
    trees = {
        "nested-vs-slash": lambda a, b: {"enc": {"w": A_(a)}, "enc/w": A_(b)},
        "index-vs-slash": lambda a, b: {"layers": [A_(a)], "layers/0": A_(b)},
        "dot": lambda a, b: {"a": {"b": A_(a)}, "a.b": A_(b)},
        "brackets": lambda a, b: {"x": {"0": A_(a)}, "x['0']": A_(b), "x[0]": A_(a)},
        "space": lambda a, b: {"p q": A_(a), "p": {"q": A_(b)}},
        "tuple-vs-list": lambda a, b: ([A_(a)], (A_(b),)),
    }
    ann = jaxtyping.PyTree[jaxtyping.Shaped[np.ndarray, "?n"], "T"]
    for cname, checker in (("typeguard", typeguard.typechecked), ("beartype", beartype.beartype)):
        ns = {"T_t": ann}
        real.exec_src("def f(t1: T_t, t2: T_t):\n    return 0\n", ns)
        f = jaxtyped(typechecker=checker)(ns["f"])
        for name, mk in trees.items():
            for (a, b, a2, b2, want) in ((3, 4, 3, 4, "ok"), (3, 4, 3, 5, "reject"), (3, 3, 3, 3, "ok"), (2, 5, 4, 5, "reject")):
                try:
                    f(mk(a, b), mk(a2, b2))
                    got = "ok"
                except Exception as e:  # noqa
                    got = classify(e)
                rec.count("keypath.cases")
                rec.case(("keypath", name, a, b, a2, b2, cname), True)
                if got != want:
                    rec.violation("verdict", {"keypath_case": name, "sizes": [a, b, a2, b2], "checker": cname}, f"trees {name} with '?n' sizes ({a},{b}) and ({a2},{b2}): {got}, expected {want}", mechanism="look-alike-key-paths-" + got)
                    break


def run_shard(rec, seed, shard, tier):
    warnings.filterwarnings("ignore")
    if shard.get("i", 1) % 2 == 1:
        real.hostile_prelude(rec)  # a past: nothing the check decides may depend on it
        real.toplevel_probes(rec, None, "after the hostile prelude")
    if shard["i"] % 4 == 1:
        real.temporaries_probe(rec, "C16")  # short-lived values whose id() is handed on
    GT.ensure_registered()
    if shard["i"] == 0:
        run_keypath_cases(rec)
        run_broadcast_variadic_cases(rec)
    for k in range(CASES[tier]):
        key = f"{seed}/C16/{shard['i']}/{k}"
        try:
            run_case(rec, random.Random(key), rngkey=key)
        except RecursionError as e:
            # (never seen on the unchanged tree) a check that recurses without end has no verdict at all
            rec.violation("verdict", {"rngkey": key}, f"a generated case ended in RecursionError: {str(e)[:120]}", mechanism="check-recurses-without-end")
            break
    rec.sample({"leaf_types": [LT.show(L) for L in LEAFTYPES]})


def replay(rec, case):
    warnings.filterwarnings("ignore")
    GT.ensure_registered()
    run_case(rec, random.Random(case["rngkey"]), rngkey=case["rngkey"])

"""Fresh-process helper of C12: (optional history) then the battery, as JSON on stdout."""
import json
import random
import sys
import warnings

warnings.filterwarnings("ignore")


def main():
    from jtv.checks import c04 as C04
    from jtv.checks import c12
    from jtv.gen import trees as GT

    GT.ensure_registered()
    C04.ensure_faulty_registered()
    out = {}
    if sys.argv[1] == "--history":
        rng = random.Random(sys.argv[2])
        sh = c12.Shared()
        ops = c12.catalogue(sh)
        names = sorted(ops)
        hist = [rng.choice(names) for _ in range(rng.randint(1, 6))]
        if rng.random() < 0.6:
            hist.insert(rng.randrange(len(hist) + 1), "construct_variants")
        for n in hist:
            try:
                ops[n]()
            except BaseException:  # noqa
                pass
        out["history"] = hist
        v1, v2 = sh.vectors(), sh.fresh().vectors()
        out["shared_differs"] = [nm for nm, a, b in zip(("img", "vec", "tree", "q", "sym", "symarg"), v1, v2) if a != b]
    out["battery"] = c12.jsonable(c12.battery())
    print(json.dumps(out))


main()

"""Child of C05: scopes and decorated calls are ENTERED at every distance from the recursion limit.
Whether the entry succeeds or dies with RecursionError, once control is back at ordinary depth no binding made on the
way may still be alive: checks made outside every scope are stateless again, and an enclosing scope still has exactly
the bindings it had.  Prints one JSON object."""
import json
import sys
import warnings

warnings.filterwarnings("ignore")
import numpy as np  # noqa: E402

import jaxtyping  # noqa: E402
from jaxtyping import Float, jaxtyped  # noqa: E402

try:
    import typeguard
except Exception:  # noqa
    typeguard = None

N = np.ndarray
F = Float[N, "jtvn"]


def A(n):
    return np.zeros((n,), dtype="float32")


def scope_entry():
    with jaxtyped("context"):
        isinstance(A(3), F)  # binds jtvn=3 inside the scope
        return "entered"


@jaxtyped(typechecker=None)
def decorated_entry(x: Float[N, "jtvn"]):
    isinstance(A(3), F)
    return "entered"


def nested_entry():
    with jaxtyped("context"):
        isinstance(A(3), F)
        with jaxtyped("context"):
            isinstance(A(4), F)
            return "entered"


ENTRIES = {"scope": scope_entry, "decorated-call": lambda: decorated_entry(A(3)), "nested-scopes": nested_entry}


def at_depth(n, thunk):
    if n <= 0:
        return thunk()
    return at_depth(n - 1, thunk)


def stateless_now():
    """outside every scope each check stands alone: sizes 4 and 5 are both fine for the same axis name"""
    return [bool(isinstance(A(4), F)), bool(isinstance(A(5), F))]


def main():
    limit = sys.getrecursionlimit()
    out = {"limit": limit, "cases": []}
    base = len(__import__("inspect").stack())
    for kind, thunk in ENTRIES.items():
        for margin in range(1, int(sys.argv[1])):
            depth = limit - base - margin
            try:
                res = at_depth(depth, thunk)
            except RecursionError:
                res = "RecursionError"
            except Exception as e:  # noqa
                res = "exc:" + type(e).__name__
            probe = stateless_now()
            # the same from inside a fresh enclosing scope: it starts empty and ends empty
            with jaxtyped("context"):
                inner = [bool(isinstance(A(6), F)), bool(isinstance(A(6), F)), bool(isinstance(A(7), F))]
            out["cases"].append({"kind": kind, "margin": margin, "entry": res, "toplevel": probe, "fresh_scope": inner})
            if probe != [True, True] or inner != [True, True, False]:
                print(json.dumps(out))
                return
    print(json.dumps(out))


main()

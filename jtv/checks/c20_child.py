"""Child process of C20: load pickles written by another process and measure them."""
import base64
import json
import pickle
import sys
import warnings

warnings.filterwarnings("ignore")


def main():
    from jtv.checks import c20

    jobs = json.load(open(sys.argv[1]))
    res = {}
    # this process has used the library before anything is loaded: checks against the built-in categories
    import numpy as np

    import jaxtyping

    for cname in ("Float", "Int", "Shaped", "Num"):
        isinstance(np.zeros(2, dtype="float32"), getattr(jaxtyping, cname)[np.ndarray, "..."])
    for jid, b64 in jobs:
        try:
            ann = pickle.loads(base64.b64decode(b64))
            h, vec = c20.vec_hash(ann)
            res[jid] = {"hash": h, "vec": vec}
            # second hop: what arrived here is serialised again with plain pickle and loaded back
            try:
                again = pickle.loads(pickle.dumps(ann))
                res[jid]["hop2"] = c20.vec_hash(again)[0]
            except Exception as e:  # noqa
                res[jid]["hop2"] = f"raised {type(e).__name__}: {str(e)[:100]}"
        except Exception as e:  # noqa
            res[jid] = {"error": f"{type(e).__name__}: {str(e)[:200]}"}
    print(json.dumps(res))


main()

"""Child process of C11 (also used by C18): executes one history and prints observations."""
import importlib
import json
import os
import subprocess
import sys
import warnings

warnings.filterwarnings("ignore")


def observe(names):
    import numpy as np

    import spychk

    out = {}
    for name in names:
        mod = sys.modules.get(name)
        if mod is None or not hasattr(mod, "MARK"):
            continue
        o = {}
        o["wrapped"] = hasattr(mod.f, "__wrapped__")
        o["spies"] = sorted({tag for (tag, m, q) in spychk.LOG if m == name})
        try:
            o["ill_typed"] = "ran" if mod.f(np.zeros(2, dtype="float32"), np.zeros(3, dtype="float32")) == mod.MARK else "ran-wrong"
        except Exception as e:  # noqa
            o["ill_typed"] = type(e).__name__
        try:
            mod.D(np.zeros(3, dtype="float32"))
            o["dataclass_ill_typed"] = "constructed"
        except Exception as e:  # noqa
            o["dataclass_ill_typed"] = type(e).__name__
        try:
            o["well_typed"] = mod.f(np.zeros(2, dtype="float32"), np.zeros(2, dtype="float32")) == mod.MARK
        except Exception as e:  # noqa
            o["well_typed"] = type(e).__name__
        o["version"] = getattr(mod, "VERSION", None)
        # which optimisation level the code that is executing was compiled for
        o["debug_constant"] = getattr(mod, "DEBUG", None)
        o["has_docstring"] = mod.__doc__ is not None
        if hasattr(mod, "with_assert"):
            try:
                o["assert"] = mod.with_assert()
            except AssertionError:
                o["assert"] = "assert-ran"
        out[name] = o
    return out


def forest_names(root):
    names = []
    for dirpath, dirs, files in os.walk(root):
        dirs[:] = [d for d in dirs if d != "__pycache__"]
        rel = os.path.relpath(dirpath, root)
        pkg = [] if rel == "." else rel.split(os.sep)
        for f in files:
            if f.endswith(".py") and f not in ("spychk.py", "test_gen.py") and not f.startswith("jtv_"):
                names.append(".".join(pkg + ([] if f == "__init__.py" else [f[:-3]])))
    return sorted(n for n in names if n)


def mode_api(spec):
    import jaxtyping

    root = spec["root"]
    sys.path.insert(0, root)
    handles = {}
    foreign = []
    strict = bool(spec.get("warnings_as_errors"))
    api_warnings = []

    def api(thunk):
        """one call into the library's hook API; in `strict` histories the program runs it with warnings turned into
        errors (python -W error / pytest's filterwarnings = error), survives whatever that raises and carries on"""
        if not strict:
            return thunk()
        with warnings.catch_warnings():
            warnings.simplefilter("error")
            try:
                return thunk()
            except Warning as e:
                api_warnings.append(type(e).__name__)
                return None

    for o in spec["ops"]:
        chk = o.get("checker")
        if isinstance(chk, list):
            chk = tuple(chk)
        if o["op"] == "install":
            handles[o["h"]] = api(lambda: jaxtyping.install_import_hook(o["names"], chk))
        elif o["op"] == "uninstall":
            if handles.get(o["h"]) is not None:
                api(handles[o["h"]].uninstall)
        elif o["op"] == "import":
            importlib.import_module(o["module"])
        elif o["op"] == "second_copy":
            # the process ends up with TWO copies of the library (a test runner that purges sys.modules, a vendored
            # copy, importlib.reload of the package): the first one has already served a hooked import; from here on
            # the program uses the second one
            h0 = jaxtyping.install_import_hook("jtv_firstcopy_mod", None)
            importlib.import_module("jtv_firstcopy_mod")
            h0.uninstall()
            for name in [n for n in sys.modules if n == "jaxtyping" or n.startswith("jaxtyping.")]:
                del sys.modules[name]
            jaxtyping = importlib.import_module("jaxtyping")
        elif o["op"] == "foreign_patch_begin":
            # another tool (typeguard 2.x's import hook, beartype.claw, a coverage tool) replaces cache_from_source for
            # a while, remembering what was there ...
            import importlib._bootstrap_external as _be

            saved = _be.cache_from_source

            def _theirs(path, debug_override=None, *, optimization=None, _saved=saved):
                return _saved(path, debug_override, optimization=optimization)

            foreign.append(saved)
            _be.cache_from_source = _theirs
        elif o["op"] == "foreign_patch_end":
            # ... and puts that back when it is done (dropping whatever was installed on top in the meantime)
            import importlib._bootstrap_external as _be

            if foreign:
                _be.cache_from_source = foreign.pop()
        elif o["op"] in ("reimport", "edit_reimport"):
            m = o["module"]
            if m in sys.modules:
                if o["op"] == "edit_reimport":
                    # the source is edited while the process is running (VERSION bumped, mtime +2 s)
                    path = sys.modules[m].__file__
                    st = os.stat(path)
                    lines = [l for l in open(path).read().splitlines() if not l.startswith("VERSION = ")]
                    with open(path, "w") as f:
                        f.write("\n".join(lines) + f"\nVERSION = {o['version']}\n")
                    os.utime(path, (st.st_atime, st.st_mtime + 2))
                del sys.modules[m]
                if "spychk" in sys.modules:  # the spy log describes module OBJECTS: forget the dropped one
                    sp = sys.modules["spychk"]
                    sp.LOG[:] = [e for e in sp.LOG if e[1] != m]
                importlib.invalidate_caches()
                importlib.import_module(m)
        elif o["op"] == "import_failing":
            # a module that cannot be compiled; the program survives it (try: import optional ... except)
            try:
                importlib.import_module(o["module"])
            except SyntaxError:
                pass
        elif o["op"] == "with" and strict:
            # the with statement spelled out, so that only the library's own enter / exit run under the strict filter
            cm = api(lambda: jaxtyping.install_import_hook(o["names"], chk))
            if cm is not None:
                api(cm.__enter__)
                exc = (None, None, None)
                try:
                    for m in o["inside"]:
                        importlib.import_module(m)
                    if o.get("leave_by_exception"):
                        importlib.import_module("jtv_optional_module_that_does_not_exist")
                except ImportError:
                    exc = sys.exc_info()
                api(lambda: cm.__exit__(*exc))
        elif o["op"] == "with":
            try:
                with jaxtyping.install_import_hook(o["names"], chk):
                    for m in o["inside"]:
                        importlib.import_module(m)
                    if o.get("leave_by_exception"):
                        importlib.import_module("jtv_optional_module_that_does_not_exist")
            except ImportError:
                pass
    for h in handles.values():
        if h is not None:
            api(h.uninstall)
            api(h.uninstall)  # double uninstall must be harmless
    leftover = [type(f).__name__ for f in sys.meta_path if "axtyping" in type(f).__name__]
    return {"modules": observe(forest_names(root)), "meta_path_leftover": leftover, "api_warnings": api_warnings}


TEST_FILE = '''
import importlib, json, sys
sys.path.insert(0, {root!r})
sys.path.insert(0, {childdir!r})
def test_obs():
    import c11_child, pytest
    mods = {mods!r}
    for m in mods[: len(mods) // 2]:
        importlib.import_module(m)
    # a nested in-process session in the middle of this one (a test that drives pytest itself: plugin tests, example
    # projects), with its own --jaxtyping-packages: when it ends, the outer session's instrumentation goes on
    third = max(1, len(mods) // 4)
    rc = pytest.main(["-q", "-p", "no:cacheprovider", {inner!r}])  # (without the option of its own)
    assert rc == 0, rc
    for m in mods[len(mods) // 2 : len(mods) // 2 + third]:
        importlib.import_module(m)
    rc = pytest.main(["-q", "-p", "no:cacheprovider", "--jaxtyping-packages=jtv_inner_only_pkg,spychk.B", {inner!r}])
    assert rc == 0, rc
    for m in mods[len(mods) // 2 + third :]:
        importlib.import_module(m)
    json.dump({{"modules": c11_child.observe(c11_child.forest_names({root!r}))}}, open({out!r}, "w"))
'''


def mode_pytest(spec):
    root = spec["root"]
    mods = [o["module"] for o in spec["ops"] if o["op"] == "import"]
    out = os.path.join(root, "obs.json")
    inner = os.path.join(root, "jtv_inner_session")
    os.makedirs(inner, exist_ok=True)
    with open(os.path.join(inner, "test_inner.py"), "w") as f:
        f.write("def test_inner():\n    assert True\n")
    with open(os.path.join(root, "test_gen.py"), "w") as f:
        f.write(TEST_FILE.format(root=root, childdir=os.path.dirname(os.path.abspath(__file__)), mods=mods, out=out, inner=inner))
    ex = spec["extra"]
    env = dict(os.environ)
    env["PYTHONPATH"] = root + os.pathsep + env.get("PYTHONPATH", "")
    arg = ",".join(ex["packages"] + [ex["checker"]])
    r = subprocess.run([sys.executable, "-m", "pytest", "-q", "-p", "no:cacheprovider", f"--jaxtyping-packages={arg}", "test_gen.py"], cwd=root, env=env, capture_output=True, text=True, timeout=600)
    if not os.path.exists(out):
        return {"error": "pytest run produced no observations: " + (r.stdout + r.stderr)[-500:]}
    return json.load(open(out))


def mode_ipython(spec):
    sys.path.insert(0, spec["root"])
    import numpy as np
    from IPython.core.interactiveshell import InteractiveShell

    import spychk

    shell = InteractiveShell.instance()
    shell.run_cell("def plain_fn(x):\n    return x")
    shell.run_line_magic("load_ext", "jaxtyping")
    shell.run_line_magic("jaxtyping.typechecker", "spychk.A")
    shell.run_cell("import numpy as np\nfrom jaxtyping import Float\ndef cell1_fn(x: Float[np.ndarray, 'a'], y: Float[np.ndarray, 'a']):\n    return 1")
    shell.run_line_magic("jaxtyping.typechecker", "spychk.B")
    shell.run_cell("def cell2_fn(x: Float[np.ndarray, 'a'], y: Float[np.ndarray, 'a']):\n    return 2")
    log = []
    for tag, m, q in spychk.LOG:
        if [tag, q] not in log:
            log.append([tag, q])
    ill = []
    for name in ("cell1_fn", "cell2_fn"):
        try:
            shell.user_ns[name](np.zeros(2, dtype="float32"), np.zeros(3, dtype="float32"))
            ill.append("ran")
        except Exception as e:  # noqa
            ill.append(type(e).__name__)
    return {"spy_log": log, "plain_before_magic": hasattr(shell.user_ns["plain_fn"], "__wrapped__"), "ill_typed": ill}


def main():
    spec = json.loads(sys.argv[1])
    try:
        out = {"api": mode_api, "pytest": mode_pytest, "ipython": mode_ipython}[spec["mode"]](spec)
    except BaseException as e:  # noqa
        import traceback

        out = {"error": f"{type(e).__name__}: {e} {traceback.format_exc()[-600:]}"}
    print(json.dumps(out))


if __name__ == "__main__":
    main()

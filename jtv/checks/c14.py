"""C14 — the dim-string language: modifier order is free, illegal forms are ValueError."""

from __future__ import annotations

import itertools
import random
import warnings

import numpy as np

from .. import probe, real
from ..model import dims as M

LEVEL = "exploration"
EXHAUSTIVE = False
TECHNIQUE = "runtime monitoring: exhaustive enumeration of single-token spellings (<=4 modifier characters in every order x doc= placement x 34 bases) against the documented-grammar parser, acceptance-vector equality across reorderings/whitespace, totality (nothing but ValueError) incl. non-string specifications; hostile characters in symbolic axes; dim strings spread over nested annotations; a quarter of the shards run with warnings turned into errors"
LEVEL_TEXT = (
    "Every single-token spelling of the stated space is built (exhaustive for that finite part); within each group of "
    "spellings differing only in modifier order / doc= placement the outcome and the acceptance vector over a probe set "
    "must coincide. Multi-token strings with arbitrary whitespace are sampled."
)
LEVEL_NOTE = "Trusts jtv/model/dims.py's parser (written from docs/api/array.md) for which forms are illegal; order-freedom itself needs no model (metamorphic)."
RULE = (
    "single tokens: all multisets of <=4 characters from '#*_?' in every order, with an optional 'd=' prefix at every "
    "position, over 34 bases - enumerated completely; sequences: <=4 tokens with random whitespace; non-strings: 12 "
    "objects. non-trivial = token has >=2 modifiers or a doc prefix, or a sequence of >=2 tokens; distinct by string."
)
ASSUMPTIONS = ["garbage that is neither identifier nor int is a symbolic expression: accepted at construction, judged only when evaluated"]
NSHARDS = 16
SEQ_CASES = {"quick": 1500, "thorough": 30000}

BASES = [
    "a", "foo", "", "0", "1", "3", "-1", "+3", "1_0", "٣", "a+1", "a*b", "2*a", "a-1", "min(a,b)", "a,b", "{n}", "{n}+1",
    "f(a)[0]", "...", "...x", "x...", "a#", "a==b", "a=b=c", "(a)", "a.b", "3.5", "0x10", "a-", "a<2", "é", "a**2", "b",
    # a symbolic axis is only text until a check evaluates it: quotes, braces, backslashes, format specs
    "a'", "'", '"', 'a"b', "{", "}", "{}", "{n", "n}", "{n!x}", "{n:>3}", "a\\", "\\", "{{n}}", "a;b", "a:b", "f'{a}'", "n'+1", "lambda:0", "a if b else c", "[a]", "a@b", "a$", "`a`", "a!",
]
MODCHARS = "#*_?"


def shards(tier):
    return [{"i": i} for i in range(NSHARDS)]


def required_counters(tier):
    forms = ["comma", "trailing#", "ellipsis-with-more", "repeat#", "repeat*", "repeat_", "repeat?", "anon+bcast",
             "fixed+variadic", "fixed+anon", "fixed+tree", "symbolic+anon", "symbolic+variadic", "symbolic+tree", "two-variadics", "nonstring"]
    d = {"illegal." + f: 1 for f in forms}
    d.update({"tokens.built": 20000, "tokens.accepted": 500, "tokens.valueerror": 5000, "groups.vector_compared": 100, "sequences": 1000, "ellipsis_equiv": 1, "nested_builds": 1000, "nested_builds.illegal": 100, "shards_with_warnings_as_errors": 2})
    return d


def spellings(mods, base, doc):
    """all distinct orderings of the modifier multiset, with 'd=' at every position if doc"""
    out = set()
    for perm in set(itertools.permutations(mods)):
        p = "".join(perm)
        if doc:
            for k in range(len(p) + 1):
                out.add(p[:k] + "d=" + p[k:] + base)
        else:
            out.add(p + base)
    return sorted(out)


def build(spec, arr=np.ndarray):
    import jaxtyping

    try:
        return "ok", jaxtyping.Shaped[arr, spec]
    except ValueError:
        return "valueerror", None
    except Exception as e:  # noqa
        return "exc:" + type(e).__name__, None


def model_build(spec):
    try:
        return "ok", M.parse(spec)
    except M.DimValueError as e:
        return "valueerror", e.form


VALUES = None


def vec(ann):
    global VALUES
    if VALUES is None:
        VALUES = [real.np_array(s) for s in probe.SHAPES_SMALL]
    return probe.vector(ann, VALUES, ctx_args=(2, 3))


def groups():
    g = []
    for k in range(0, 5):
        for mods in itertools.combinations_with_replacement(MODCHARS, k):
            for base in BASES:
                for doc in (False, True):
                    if doc and "=" in base:
                        continue  # 'name=' is only recognised when the token has exactly one '=': not a documented form
                    g.append((mods, base, doc))
    return g


def run_group(rec, mods, base, doc):
    sp = spellings(mods, base, doc)
    outcomes = {}
    for s in sp:
        got, ann = build(s)
        exp, info = model_build(s)
        rec.count("tokens.built")
        rec.case(("tok", s), nontrivial=len(mods) >= 2 or doc)
        rec.count("tokens." + (got if got in ("ok", "valueerror") else "other"))
        if got == "ok":
            rec.count("tokens.accepted")
        if exp == "valueerror":
            rec.count("illegal." + info)
        if got.startswith("exc:"):
            rec.violation("totality", {"spec": s}, f"building Shaped[ndarray, {s!r}] raised {got[4:]}, not ValueError", mechanism="build-raises-" + got[4:])
        elif got != exp:
            rec.violation("legality", {"spec": s}, f"{s!r}: documented grammar says {exp} ({info if exp == 'valueerror' else ''}), real {got}", mechanism=f"token-model-{exp}-real-{got}")
        outcomes[s] = (got, ann)
    # A spelling that ends in '#' falls under the documented illegal form "trailing '#'"
    # (e.g. '*#' with an empty base) whatever the other spellings of its group do: the
    # two rules of the statement collide there, so such spellings are judged by the
    # legality oracle above only and left out of the order-freedom comparison.
    judged = {s: o for s, o in outcomes.items() if not s.endswith("#")}
    if len(judged) != len(outcomes):
        rec.open_corner("trailing-#-vs-order-freedom", len(outcomes) - len(judged))
    sp = sorted(judged)
    kinds = {o[0] for o in judged.values()}
    if len(kinds) > 1:
        rec.violation("order-freedom", {"specs": sp}, f"spellings differing only in modifier order/doc placement disagree at build: { {s: o[0] for s, o in outcomes.items()} }", mechanism="order-changes-legality")
        return
    if kinds == {"ok"} and len(sp) > 1:
        ref = None
        for s in sp:
            v = vec(outcomes[s][1])
            if ref is None:
                ref = (s, v)
            elif v != ref[1]:
                diff = next(i for i, (a, b) in enumerate(zip(v, ref[1])) if a != b)
                rec.violation("order-freedom", {"specs": [ref[0], s]}, f"{ref[0]!r} and {s!r} differ only in modifier order but accept differently (probe #{diff}: {ref[1][diff]} vs {v[diff]})", mechanism="order-changes-meaning")
                break
        rec.count("groups.vector_compared")


TOKENS_FOR_SEQ = ["a", "b", "#a", "*v", "*#v", "#*v", "...", "_", "_x", "3", "#3", "d=3", "a+1", "#a+1", "{n}", "?a", "*?v", "1", "foo", "rows=a", "a,b", "a#", "**v", "__", "*3", "_3", "...x", "min(a,b)", "n'", "{", "a\\", '"', "{n!x}", "}"]
WS = [" ", "  ", "\t", "\n", " \n\t ", "\r\n", "   "]


def run_sequence(rec, rng):
    n = rng.choice((0, 1, 2, 2, 3, 3, 4))
    toks = [rng.choice(TOKENS_FOR_SEQ) for _ in range(n)]
    spec = rng.choice(("", "", " ", "\t", "\n"))
    for i, t in enumerate(toks):
        if i:
            spec += rng.choice(WS)
        spec += t
    spec += rng.choice(("", "", " ", "\n", "\t "))
    norm = " ".join(toks)
    got, ann = build(spec)
    exp, info = model_build(spec)
    rec.count("sequences")
    rec.case(("seq", spec), nontrivial=n >= 2)
    if exp == "valueerror":
        rec.count("illegal." + info)
    if got.startswith("exc:"):
        rec.violation("totality", {"spec": spec}, f"building {spec!r} raised {got[4:]}", mechanism="build-raises-" + got[4:])
        return
    if got != exp:
        rec.violation("legality", {"spec": spec}, f"{spec!r}: documented grammar says {exp} ({info}), real {got}", mechanism=f"seq-model-{exp}-real-{got}")
        return
    if got == "ok" and spec != norm:
        got2, ann2 = build(norm)
        if got2 != "ok" or vec(ann) != vec(ann2):
            rec.violation("whitespace", {"specs": [spec, norm]}, f"{spec!r} and {norm!r} differ only in whitespace but mean different things", mechanism="whitespace-significant")
        rec.count("whitespace_compared")


NEST_TOKENS = ["a", "b", "3", "_", "#a", "*v", "*w", "...", "*_", "_*", "*_foo", "*#v", "?a", "a+1", "d=3", "", "*?v", "x=..."]


def run_nested_build(rec, rng):
    """a shape spread over a nested annotation, Outer[Inner[A, inner], outer], is one dim string "outer inner":
    legal exactly when that is legal, ValueError otherwise - and never anything else"""
    import jaxtyping

    inner = " ".join(rng.choice(NEST_TOKENS) for _ in range(rng.choice((0, 1, 1, 2, 3)))).strip()
    outer = " ".join(rng.choice(NEST_TOKENS) for _ in range(rng.choice((0, 1, 1, 2)))).strip()
    gi, inner_ann = build(inner)
    if gi != "ok" or model_build(inner)[0] != "ok":
        return
    try:
        ann = jaxtyping.Shaped[inner_ann, outer]
        got = "ok"
    except ValueError:
        got, ann = "valueerror", None
    except Exception as e:  # noqa
        got, ann = "exc:" + type(e).__name__, None
    combined = (outer + " " + inner).strip()
    exp, info = model_build(combined)
    if model_build(outer)[0] != "ok":
        exp = "valueerror"
    rec.count("nested_builds")
    rec.case(("nested", inner, outer), True)
    if exp == "valueerror":
        rec.count("nested_builds.illegal")
    case = {"inner": inner, "outer": outer}
    if got.startswith("exc:"):
        rec.violation("totality", case, f"building Shaped[Shaped[A, {inner!r}], {outer!r}] raised {got[4:]}, not ValueError", mechanism="nested-build-raises-" + got[4:])
    elif got != exp:
        rec.violation("legality", case, f"Shaped[Shaped[A, {inner!r}], {outer!r}] means {combined!r}: documented grammar says {exp} ({info}), real {got}", mechanism=f"nested-model-{exp}-real-{got}")
    elif got == "ok":
        g2, flat = build(combined)
        if g2 == "ok" and vec(ann) != vec(flat):
            rec.violation("legality", case, f"Shaped[Shaped[A, {inner!r}], {outer!r}] and Shaped[A, {combined!r}] accept differently", mechanism="nested-differs-from-flat")


NONSTRINGS = [None, 3, b"a b", ("a",), ["a"], 3.0, int, object(), True, {"a": 1}, 1j, frozenset()]


def run_nonstrings(rec):
    import jaxtyping

    for obj in NONSTRINGS:
        got, _ = build(obj)
        rec.count("illegal.nonstring")
        rec.case(("nonstring", repr(obj)), nontrivial=True)
        if got != "valueerror":
            rec.violation("totality", {"nonstring": repr(obj)}, f"Shaped[ndarray, {obj!r}]: expected ValueError, got {got}", mechanism="nonstring-" + got)
    for item in (np.ndarray, (np.ndarray,), (np.ndarray, "a", "b"), "a", ()):
        try:
            jaxtyping.Shaped[item]
            got = "ok"
        except ValueError:
            got = "valueerror"
        except Exception as e:  # noqa
            got = "exc:" + type(e).__name__
        rec.case(("item", repr(item)), nontrivial=True)
        if got != "valueerror":
            rec.violation("totality", {"item": repr(item)}, f"Shaped[{item!r}]: expected ValueError, got {got}", mechanism="item-" + got)


def run_equivalences(rec):
    """'...' means '*_'; 'name=' prefixes are ignored"""
    pairs = [("...", "*_"), ("a ...", "a *_"), ("... 3", "_* 3"), ("rows=3 cols=a", "3 a"), ("a b", "x=a y=b"), ("#a *v", "n=#a m=*v"), ("...", "d=...")]
    for s1, s2 in pairs:
        g1, a1 = build(s1)
        g2, a2 = build(s2)
        rec.count("ellipsis_equiv")
        rec.case(("equiv", s1, s2), nontrivial=True)
        if s2 == "d=..." :
            # '...' takes no modifiers; whether a doc prefix counts is not stated: only totality matters
            continue
        if g1 != "ok" or g2 != "ok" or vec(a1) != vec(a2):
            rec.violation("equivalence", {"specs": [s1, s2]}, f"{s1!r} ({g1}) and {s2!r} ({g2}) should mean the same", mechanism="documented-equivalence-broken")


def run_shard(rec, seed, shard, tier):
    warnings.filterwarnings("ignore")
    if shard.get("i", 1) % 2 == 1:
        real.hostile_prelude(rec)  # a past: nothing the check decides may depend on it
        real.toplevel_probes(rec, None, "after the hostile prelude")
    gs = groups()
    with warnings.catch_warnings():
        if shard["i"] % 4 == 2:
            # a program that runs with warnings turned into errors (python -W error, pytest's filterwarnings = error):
            # a legal specification still builds, an illegal one still raises ValueError - nothing else
            warnings.simplefilter("error")
            rec.count("shards_with_warnings_as_errors")
        for idx, (mods, base, doc) in enumerate(gs):
            if idx % NSHARDS == shard["i"] or (shard["i"] % 4 == 2 and idx % 4 == 2):
                run_group(rec, mods, base, doc)
        rec.info["groups_total"] = len(gs) if shard["i"] == 0 else 0
        for k in range(SEQ_CASES[tier]):
            run_sequence(rec, random.Random(f"{seed}/C14/{shard['i']}/{k}"))
            if k % 3 == 0:
                run_nested_build(rec, random.Random(f"{seed}/C14/{shard['i']}/nested{k}"))
    if shard["i"] == 0:
        run_nonstrings(rec)
        run_equivalences(rec)
        rec.sample({"group": ["#", "*", "?"], "base": "v", "spellings": spellings(("#", "*", "?"), "v", True)[:8]})


def replay(rec, case):
    warnings.filterwarnings("ignore")
    specs = case.get("specs") or ([case["spec"]] if "spec" in case else [])
    res = []
    for s in specs:
        got, ann = build(s)
        exp, info = model_build(s)
        res.append((got, vec(ann) if ann is not None else None))
        if got.startswith("exc:") or got != exp:
            rec.violation("legality", case, f"{s!r}: model {exp} real {got}", mechanism="replay")
    if len(res) > 1 and any(r != res[0] for r in res[1:]):
        rec.violation("order-freedom", case, "spellings still disagree", mechanism="replay")
    if "nonstring" in case or "item" in case:
        run_nonstrings(rec)

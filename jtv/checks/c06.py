"""C06 — threads never see each other's bindings or transient check state.

Oracle: the solo run of the same workload is the specification; plus the ownership
invariant of the shadow-store monitor. Schedules come from the controlled scheduler:
(i) every single preemption of each catalogued operation by each probing operation,
(ii) seeded random multi-preemption schedules over 2-3 threads, (iii) free-running stress.
"""

# (no `from __future__ import annotations` here: this module defines annotated functions for the typecheckers)

import random
import threading
import typing
import warnings

import numpy as np

from .. import real
from ..monitor import scheduler as SCH
from ..monitor import shadowstore

LEVEL = "exploration"
TECHNIQUE = "runtime monitoring under a controlled scheduler: sys.settrace yield points on every line (thorough: opcode) of the jaxtyping package, exhaustive single-preemption of catalogued operation pairs + seeded random multi-preemption schedules + free-running stress; oracle = solo-run equality per thread and shadow-store ownership invariant; workers started in copied contextvars contexts, one context object shared by all threads, fresh annotation classes; operations that enter a nested scope during a flatten and that evaluate symbolic axes, the latter pairs enumerated at every yield point"
LEVEL_TEXT = (
    "Single preemptions of each catalogued operation by each probing operation are executed at line granularity (quick: "
    "~120 evenly spread points per pair; thorough: opcode granularity, ~500 points per pair), plus a sample of "
    "multi-preemption schedules, schedules whose workers run in copied contextvars contexts, and free-running stress. 'Every interleaving' cannot be "
    "enumerated: a bug needing two precisely placed preemptions outside the catalogue can be missed."
)
LEVEL_NOTE = "Yield points are line/opcode events inside jaxtyping/*.py (any file: refactor-proof); C-level code between them is atomic under the GIL for these pure-Python state updates."
RULE = (
    "one case = (operation A, probe B, preemption point k) or (random schedule seed, 2-3 threads x mixed ops) or one "
    "free-running stress round; distinct = distinct (A, B, file:line of the preemption) triples resp. distinct switch "
    "sequences; non-trivial = at least one context switch was injected while a thread was inside jaxtyping."
)
ASSUMPTIONS = ["the GIL makes single bytecodes atomic; preemption is modelled at line (quick) / opcode (thorough) boundaries of jaxtyping's own code"]
SHARD_TIMEOUT = {"quick": 900, "thorough": 3600}
RANDOM_SCHEDULES = {"quick": 10, "thorough": 100}  # per shard
NSHARDS = 16


def shards(tier):
    return [{"i": i} for i in range(NSHARDS)]


def required_counters(tier):
    return {
        "single_preemption.runs": 1000,
        "preemptions_injected": 1000,
        "random.schedules": 100,
        "random.switches": 1000,
        "stress.rounds": 1, "random.schedules_in_copied_contexts": 20, "raw_thread.rounds": 1, "pytest_session.runs": 1, "raw_thread.newcomer_threads": 4,
        # (shadow.get_events and windows.* are white-box evidence: they are demanded in run_shard only
        #  when the shadow monitor could attach - a refactored storage module must not make the
        #  black-box arms inconclusive)
    }


# ------------------------------------------------------------------------------ operations
_ANN = {}


def prepare():
    """build every annotation and decorated function before any thread starts (imports
    and decoration take real locks that must not be held at a yield point)"""
    import beartype
    import typeguard

    import jaxtyping
    from jaxtyping import Float, Int, PyTree, Shaped, jaxtyped

    if _ANN:
        return
    N = np.ndarray
    _ANN.update(
        q_tree=PyTree[Shaped[N, "?n"], "T"],
        f_a7=Float[N, "a 7"],
        f_ab=Float[N, "a b"],
        f_a=Shaped[N, "a"],
        f_x=Float[N, "x"],
        q_top=Shaped[N, "?n"],
        tup_tree=PyTree[tuple[Float[N, "a"], Float[N, "b"]]],
        var=Float[N, "*v c"],
        int_tree=PyTree[int, "S"],
        arr_tree=PyTree[Float[N, "a b"]],
        nested_tree=PyTree[PyTree[Float[N, "a"]]],
        nested_q=PyTree[PyTree[Shaped[N, "?n"]], "T"],
        aba=Shaped[N, "a *v a"],
        abab=Shaped[N, "a b a b"],
        tl_tree=PyTree[Shaped[N, "a"]],
    )

    @jaxtyped(typechecker=typeguard.typechecked)
    def mm(x: Float[N, "a b"], y: Float[N, "b c"]) -> Float[N, "a c"]:
        return real.np_array((x.shape[0], y.shape[1]))

    @jaxtyped(typechecker=beartype.beartype)
    def mm_b(x: Float[N, "a b"], y: Float[N, "b c"]) -> Float[N, "a c"]:
        return real.np_array((x.shape[0], y.shape[1]))

    @jaxtyped(typechecker=typeguard.typechecked)
    def bad(x: Float[N, "a b"], y: Float[N, "a"]):
        return 0

    import jax

    class ReNode:
        """a custom PyTree node whose flatten function itself makes a decorated call (a nested scope that is entered
        and left WHILE the enclosing PyTree check is flattening)"""

        def __init__(self, a):
            self.a = a

    def _fl(n):
        mm(real.np_array((2, 3)), real.np_array((3, 4)))
        return (n.a,), None

    try:
        jax.tree_util.register_pytree_node(ReNode, _fl, lambda aux, ch: ReNode(ch[0]))
    except ValueError:
        pass
    _ANN.update(ReNode=ReNode, re_tree=PyTree[Float[N, "a"]], sym=Shaped[N, "a b a*2+b"], sym_tree=PyTree[Shaped[N, "a a+1"]])
    _ANN.update(mm=mm, mm_b=mm_b, bad=bad, CTX=jaxtyped("context"))
    # warm caches (equinox / wadler_lindig imports happen in error paths)
    try:
        bad(real.np_array((2, 3)), real.np_array((4,)))
    except Exception:
        pass


def A(*shape, dt="float32"):
    return real.np_array(shape, dt)


def ctx(body):
    from jaxtyping import jaxtyped

    with jaxtyped("context"):
        return body()


def op_qtree(k=0):
    def body():
        t1 = {"p": A(2 + k), "q": (A(3), A(4 + k))}
        t2 = {"p": A(2 + k), "q": (A(3), A(4 + k))}
        t3 = {"p": A(2 + k), "q": (A(9), A(4 + k))}
        r = (real.check(t1, _ANN["q_tree"]), real.check(t2, _ANN["q_tree"]), real.check(t3, _ANN["q_tree"]))
        return r, real.raw_transcript()

    return ctx(body)


def op_rollback(k=0):
    def body():
        r1 = real.check(A(2 + k, 3), _ANN["f_ab"])
        r2 = real.check(A(2 + k, 3), _ANN["f_a7"])  # binds nothing: rolled back
        r3 = real.check(A(5, 7), _ANN["f_a7"])  # a is bound to 2+k: must fail
        return (r1, r2, r3), real.raw_transcript()

    return ctx(body)


def op_call(k=0):
    f = _ANN["mm"] if k % 2 == 0 else _ANN["mm_b"]
    try:
        out = f(A(2 + k, 3), A(3, 4))
        r = ("ok", out.shape)
    except Exception as e:  # noqa
        r = ("raised", type(e).__name__)
    try:
        f(A(2, 3), A(4, 4))
        r2 = "ok"
    except Exception as e:  # noqa
        r2 = type(e).__name__
    return r, r2


def op_block(k=0):
    def body():
        r = [real.check(A(2 + k), _ANN["f_a"]), real.check(A(3 + k), _ANN["f_a"]), real.check(A(1, 2 + k), _ANN["var"]), real.check(A(2, 3 + k), _ANN["var"])]
        return r, real.raw_transcript()

    return ctx(body)


def op_tuptree(k=0):
    def body():
        good = [(A(2 + k), A(3)), {"z": (A(2 + k), A(3))}]
        bad = [(A(2 + k), A(3)), (A(2 + k), A(5))]
        return (real.check(good, _ANN["tup_tree"]), real.check(bad, _ANN["tup_tree"])), real.raw_transcript()

    return ctx(body)


def op_nested(k=0):
    def body():
        good = [[A(2 + k), A(2 + k)], (A(2 + k),)]
        bad = [[A(2 + k), A(3 + k)]]
        q = [[A(2), A(2)], A(3 + k)]
        return (real.check(good, _ANN["nested_tree"]), real.check(bad, _ANN["nested_tree"]), real.check(q, _ANN["nested_q"]), real.check([A(2, dt="int32")], _ANN["nested_tree"])), real.raw_transcript()

    return ctx(body)


def op_symbolic(k=0):
    """symbolic axes are computed from THIS scope's bindings"""
    def body():
        a, b = 2 + k, 3 + (k % 2)
        r = (
            real.check(A(a, b, 2 * a + b), _ANN["sym"]),
            real.check(A(a, b, 2 * a + b + 1), _ANN["sym"]),
            real.check([A(a, a + 1), A(a, a + 1)], _ANN["sym_tree"]),
            real.check([A(a, a + 1), A(a, a + 2)], _ANN["sym_tree"]),
        )
        return r, real.raw_transcript()

    return ctx(body)


def op_reentrant(k=0):
    def body():
        R = _ANN["ReNode"]
        good = [R(A(2 + k)), A(2 + k), (A(2 + k),)]
        bad_dtype = [R(A(2 + k)), A(2 + k, dt="int32")]
        bad_size = [R(A(2 + k)), (A(2 + k), A(3 + k))]
        return (real.check(good, _ANN["re_tree"]), real.check(bad_dtype, _ANN["re_tree"]), real.check(bad_size, _ANN["re_tree"]), real.check(A(2 + k, dt="int32"), _ANN["f_a"])), real.raw_transcript()

    return ctx(body)


_FRESH = {}


def refresh_fresh():
    """brand-new annotation classes (every subscription creates a new class): whatever an implementation
    builds lazily on the first check of a class is then built while several threads are inside it"""
    import jaxtyping
    from jaxtyping import Float, Int, PyTree, Shaped

    N = np.ndarray
    _FRESH.clear()
    _FRESH.update(f=Float[N, "a b"], i=Int[N, "a"], s=Shaped[N, "*v c"], n=jaxtyping.Num[N, "a"], t=PyTree[Float[N, "a"], "T"], u=jaxtyping.UInt8[N, "..."])


def op_fresh(k=0):
    def body():
        r = (
            real.check(A(2, 3), _FRESH["f"]),
            real.check(A(2, dt="int32"), _FRESH["i"]),
            real.check(A(2, dt="float32"), _FRESH["i"]),
            real.check(A(4, 5), _FRESH["s"]),
            real.check(A(2, dt="complex64"), _FRESH["n"]),
            real.check(A(2, dt="bool"), _FRESH["n"]),
            real.check([A(2), A(2)], _FRESH["t"]),
            real.check(A(3, dt="uint8"), _FRESH["u"]),
            real.check(A(3, dt="int8"), _FRESH["u"]),
        )
        return r, real.raw_transcript()

    return ctx(body)


def op_error_message(k=0):
    try:
        _ANN["bad"](A(2 + k, 3), A(4 + k))
        return "no error"
    except Exception as e:  # noqa
        tail = str(e).split("are as follows.")[-1].strip()
        return type(e).__name__, tail


# probes: their verdict flips if another thread's state is visible
def pr_wrong_dtype(k=0):
    return ctx(lambda: (real.check(A(3, dt="int32"), _ANN["f_x"]), real.check([A(2, 3, dt="int32")], _ANN["arr_tree"]), real.raw_transcript()))


def pr_question_outside(k=0):
    return ctx(lambda: (real.check(A(3), _ANN["q_top"]), real.raw_transcript()))


def pr_same_name(k=0):
    return ctx(lambda: (real.check(A(5), _ANN["f_a"]), real.check(A(6), _ANN["f_a"]), real.check(A(5, 6), _ANN["f_ab"]), real.raw_transcript()))


def pr_toplevel(k=0):
    return (real.check(A(7), _ANN["f_a"]), real.check(A(8), _ANN["f_a"]), real.raw_transcript())


def op_toplevel_multi(k=0):
    """checks made OUTSIDE every context: each gets throw-away bindings of its own - also while another
    thread is in the middle of such a check (same axis name before and after a variadic / repeated)"""
    return (
        real.check(A(2 + k, 3, 2 + k), _ANN["aba"]),
        real.check(A(2 + k, 3, 4 + k), _ANN["aba"]),
        real.check(A(3 + k, 2, 3 + k, 2), _ANN["abab"]),
        real.check([A(2 + k), A(2 + k)], _ANN["tl_tree"]),
        real.check([A(2 + k), A(5 + k)], _ANN["tl_tree"]),
        real.raw_transcript(),
    )


def op_shared_ctx(k=0):
    """ONE `jaxtyped("context")` object used by every thread (a module-level constant in user code): each
    `with` on it is a scope of the entering thread only, and once left the thread is stateless again"""
    with _ANN["CTX"]:
        inside = (real.check(A(2 + k), _ANN["f_a"]), real.check(A(3 + k), _ANN["f_a"]), real.check((1, (2, k)), _ANN["int_tree"]), real.check((1, 2), _ANN["int_tree"]), real.raw_transcript())
    after = (real.check(A(7 + k), _ANN["f_a"]), real.check(A(8 + k), _ANN["f_a"]), real.check((1, 2, 3), _ANN["int_tree"]), real.raw_transcript())
    return inside, after


def pr_struct(k=0):
    return ctx(lambda: (real.check((1, 2), _ANN["int_tree"]), real.check((1, (2, 3)), _ANN["int_tree"]), real.raw_transcript()))


OPS = {"qtree": op_qtree, "rollback": op_rollback, "call": op_call, "block": op_block, "tuptree": op_tuptree, "errmsg": op_error_message, "nested": op_nested, "fresh": op_fresh, "toplevel_multi": op_toplevel_multi, "shared_ctx": op_shared_ctx, "reentrant": op_reentrant, "symbolic": op_symbolic}
PROBES = {"reentrant": op_reentrant, "symbolic": op_symbolic, "shared_ctx": op_shared_ctx, "fresh": op_fresh, "toplevel_multi": op_toplevel_multi, "wrong_dtype": pr_wrong_dtype, "question_outside": pr_question_outside, "same_name": pr_same_name, "toplevel": pr_toplevel, "struct": pr_struct, "call": op_call, "qtree": op_qtree, "nested": op_nested}
ALL = dict(OPS, **{"pr_" + k: v for k, v in PROBES.items()})


def solo(fn, k=0):
    return ("ok", fn(k))


def window_stats(rec, baton_where):
    """classify where the preemption landed (white-box, for evidence only)"""
    st = shadowstore.quiescent_state()
    return st


def run_single_preemptions(rec, shard, tier):
    pairs = [(a, b) for a in OPS for b in PROBES]
    opcodes = tier == "thorough"
    for idx, (a, b) in enumerate(pairs):
        if idx % NSHARDS != shard["i"]:
            continue
        fa, fb = OPS[a], PROBES[b]
        refresh_fresh()
        exp_a, exp_b = solo(fa, 1), solo(fb, 2)
        # dry run: count A's yield points
        refresh_fresh()
        res, bat = SCH.run([lambda: fa(1)], SCH.never, opcodes=opcodes)
        K = bat.points[0]
        if res[0] != exp_a:
            rec.violation("solo-nondeterministic", {"op": a}, f"{a} alone under tracing gives {res[0]} vs untraced {exp_a}", mechanism="tracing-changes-result")
            continue
        rec.info.setdefault("yield_points", []).append(f"{a}:{K}")
        # quick tier: at most ~120 preemption points per (operation, probe) pair, evenly spread; the
        # offset rotates with the pair so that over the catalogue every residue class is visited
        step = max(1, K // 500) if tier == "thorough" else max(1, K // 120)
        if a == b and a in ("symbolic", "reentrant"):
            # narrow windows (a few lines between filling in a scope's values and using them): every yield point at line
            # granularity; at opcode granularity (thorough tier) a dense but bounded sample
            step = 1 if not opcodes else max(1, K // 3000)
            rec.count("single_preemption.dense_pairs")
        for k in range(1 + (idx % step), K + 1, step):
            seen = {}

            def probe_and_peek():
                # white-box peek (evidence only): what transient state did the victim hold?
                try:
                    from jaxtyping import _storage as S

                    seen["flat_any"] = False
                except Exception:
                    pass
                return fb(2)

            if "fresh" in (a, b):
                refresh_fresh()
            res, bat = SCH.run([lambda: fa(1), probe_and_peek], SCH.preempt_once(0, k, 1), opcodes=opcodes)
            rec.count("single_preemption.runs")
            if any(r is None or r[0] == "deadlock" for r in res):
                rec.inconclusive.append(f"deadlock/watchdog in single preemption {a}/{b}@{k}: {res}")
                return
            where = bat.switches[0] if bat.switches else None
            if bat.switches:
                rec.count("preemptions_injected")
                w = bat.where[0]
            loc = None
            if where is not None:
                # the location at which A was preempted
                loc = None
            rec.case((a, b, k), nontrivial=bool(bat.switches))
            if res[0] != exp_a or res[1] != exp_b:
                who = "victim" if res[0] != exp_a else "probe"
                rec.violation(
                    "isolation",
                    {"op": a, "probe": b, "k": k, "opcodes": opcodes},
                    f"{a} preempted at its yield point {k} by {b}: {who} deviates from its solo run: got {res[0] if who == 'victim' else res[1]} expected {exp_a if who == 'victim' else exp_b}",
                    mechanism=f"single-preemption-{who}-deviates",
                )
                break
        drain_shadow(rec, {"op": a, "probe": b})


def drain_shadow(rec, case):
    if shadowstore.violations:
        kind, detail, tname = shadowstore.violations[0]
        rec.violation("shadow-" + kind, case, f"{detail} (thread {tname}); {len(shadowstore.violations)} such events", mechanism="shadow-" + kind)
        shadowstore.violations.clear()


def run_random(rec, seed, shard, tier):
    names = sorted(ALL)
    for s in range(RANDOM_SCHEDULES[tier]):
        rng = random.Random(f"{seed}/C06/{shard['i']}/{s}")
        nthreads = rng.choice((2, 3))
        plans = [[(rng.choice(names), rng.randint(0, 3)) for _ in range(rng.choice((5, 10, 30)))] for _ in range(nthreads)]
        refresh_fresh()
        exp = [[ALL[n](k) for n, k in plan] for plan in plans]
        refresh_fresh()
        mk = lambda plan: (lambda: [ALL[n](k) for n, k in plan])
        wls = [mk(p) for p in plans]
        if s % 3 == 0:
            # workers started the way asyncio.to_thread / executors do it: each runs inside a COPY of the
            # parent's contextvars.Context, taken after the parent itself has used jaxtyped
            import contextvars

            op_block(0)
            op_call(0)
            if s % 6 == 0:
                copies = [contextvars.copy_context() for _ in wls]
            else:
                # ... or taken while the parent is INSIDE an open scope that has bound axes and a structure (what
                # `await asyncio.to_thread(...)` does in the middle of a decorated coroutine / a context block):
                # the worker is another thread, it starts with no bindings of its own
                with _ANN["CTX"]:
                    real.check(A(9), _ANN["f_a"])
                    real.check((1, 2, 3, 4), _ANN["int_tree"])
                    copies = [contextvars.copy_context() for _ in wls]
                rec.count("random.schedules_in_contexts_copied_inside_open_scope")
            wls = [(lambda c=c, w=w: c.run(w)) for c, w in zip(copies, wls)]
            rec.count("random.schedules_in_copied_contexts")
        prng = random.Random(f"{seed}/C06/{shard['i']}/{s}/policy")
        res, bat = SCH.run(wls, SCH.random_preempt(prng, rng.choice((0.02, 0.05, 0.2))), opcodes=(tier == "thorough" and s % 4 == 0))
        rec.count("random.schedules")
        rec.count("random.switches", len(bat.switches))
        rec.count("preemptions_injected", len(bat.switches))
        if any(r is None or r[0] == "deadlock" for r in res):
            rec.inconclusive.append(f"deadlock/watchdog in random schedule {s}: {[r if r is None else r[0] for r in res]}")
            return
        rec.case(("random", tuple(bat.switches[:200])), nontrivial=len(bat.switches) > 0)
        for t in range(nthreads):
            if res[t] != ("ok", exp[t]):
                bad = None
                if res[t][0] == "ok":
                    bad = next((i for i, (g, e) in enumerate(zip(res[t][1], exp[t])) if g != e), None)
                rec.violation(
                    "isolation",
                    {"schedule_seed": f"{seed}/C06/{shard['i']}/{s}", "plans": plans},
                    f"thread {t} deviates from its solo run at op #{bad} {plans[t][bad] if bad is not None else ''}: got {res[t][1][bad] if bad is not None else res[t]} expected {exp[t][bad] if bad is not None else '...'}; {len(bat.switches)} switches",
                    mechanism="random-schedule-thread-deviates",
                )
                break
        drain_shadow(rec, {"schedule_seed": f"{seed}/C06/{shard['i']}/{s}"})


def run_stress(rec, seed, shard, tier):
    """free-running arm: 8 threads, no tracing (weakest arm)"""
    rng = random.Random(f"{seed}/C06/{shard['i']}/stress")
    names = sorted(ALL)
    nthreads = 8
    plans = [[(rng.choice(names), rng.randint(0, 3)) for _ in range(150 if tier == "quick" else 1500)] for _ in range(nthreads)]
    refresh_fresh()
    exp = [[ALL[n](k) for n, k in plan] for plan in plans]
    refresh_fresh()
    out = [None] * nthreads
    start = threading.Barrier(nthreads)

    import contextvars

    op_block(0)
    parent_ctx = [contextvars.copy_context() for _ in range(nthreads)]

    def w(i):
        start.wait()
        try:
            body = lambda: [ALL[n](k) for n, k in plans[i]]
            out[i] = parent_ctx[i].run(body) if i % 2 else body()
        except BaseException as e:  # noqa
            out[i] = f"{type(e).__name__}: {e}"

    import sys

    old = sys.getswitchinterval()
    sys.setswitchinterval(1e-6)
    try:
        ts = [threading.Thread(target=w, args=(i,)) for i in range(nthreads)]
        [t.start() for t in ts]
        [t.join(600) for t in ts]
    finally:
        sys.setswitchinterval(old)
    rec.count("stress.rounds")
    rec.case(("stress", shard["i"]), nontrivial=True)
    for i in range(nthreads):
        if out[i] != exp[i]:
            rec.violation("isolation", {"stress_seed": f"{seed}/C06/{shard['i']}/stress"}, f"free-running thread {i} deviates from its solo run", mechanism="stress-thread-deviates")
            break
    drain_shadow(rec, {"stress": True})


def run_raw_threads(rec, seed, shard, tier):
    """threads that the `threading` module does not know about (started with `_thread.start_new_thread`, as C
    extensions and callback threads are) work through their plans while ordinary short-lived threads keep making
    their FIRST contact with the library: everybody gets the answers of a solo run"""
    import _thread

    rng = random.Random(f"{seed}/C06/{shard['i']}/raw")
    names = sorted(ALL)
    nraw = 4
    plans = [[(rng.choice(names), rng.randint(0, 3)) for _ in range(60 if tier == "quick" else 400)] for _ in range(nraw)]
    refresh_fresh()
    exp = [[ALL[n](k) for n, k in plan] for plan in plans]
    refresh_fresh()
    out = [None] * nraw
    done = [threading.Event() for _ in range(nraw)]

    def raw(i):
        try:
            out[i] = [ALL[n](k) for n, k in plans[i]]
        except BaseException as e:  # noqa
            out[i] = f"{type(e).__name__}: {e}"
        finally:
            done[i].set()

    newcomer_out = []

    def newcomer(k):
        try:
            newcomer_out.append((k, op_block(k % 3) == _NEWCOMER_EXP[k % 3]))
        except BaseException as e:  # noqa
            newcomer_out.append((k, f"{type(e).__name__}: {e}"))

    _NEWCOMER_EXP = {k: op_block(k) for k in range(3)}
    for i in range(nraw):
        _thread.start_new_thread(raw, (i,))
    k = 0
    while not all(d.is_set() for d in done) and k < 2000:
        t = threading.Thread(target=newcomer, args=(k,))
        t.start()
        t.join(60)
        k += 1
    for d in done:
        d.wait(600)
    rec.count("raw_thread.rounds")
    rec.count("raw_thread.newcomer_threads", k)
    rec.case(("raw-threads", shard["i"]), nontrivial=True)
    for i in range(nraw):
        if out[i] != exp[i]:
            bad = next((j for j, (g, e) in enumerate(zip(out[i], exp[i])) if g != e), None) if isinstance(out[i], list) else None
            rec.violation("isolation", {"raw_seed": f"{seed}/C06/{shard['i']}/raw"}, f"a thread started with _thread.start_new_thread deviates from its solo run ({'op #%s %s' % (bad, plans[i][bad]) if bad is not None else out[i]}) while {k} ordinary threads made their first contact with the library", mechanism="raw-thread-deviates")
            return
    badn = [x for x in newcomer_out if x[1] is not True]
    if badn:
        rec.violation("isolation", {"raw_seed": f"{seed}/C06/{shard['i']}/raw"}, f"a short-lived thread making its first contact deviates: {badn[:2]}", mechanism="newcomer-thread-deviates")
    drain_shadow(rec, {"raw": True})


PYTEST_CONFTEST = '''
import json, threading
import numpy as np
import pytest
import jaxtyping
from jaxtyping import Float, PyTree, jaxtyped

GO = threading.Event()
IN_SCOPE = threading.Event()
RESULT = {}

def worker():
    try:
        with jaxtyped("context"):
            RESULT["bound"] = bool(isinstance(np.zeros(3, dtype="float32"), Float[np.ndarray, "n"]))
            RESULT["tree"] = bool(isinstance((1, 2), PyTree[int, "T"]))
            IN_SCOPE.set()
            GO.wait(60)
            RESULT["other_size_rejected"] = not isinstance(np.zeros(4, dtype="float32"), Float[np.ndarray, "n"])
            RESULT["other_tree_rejected"] = not isinstance((1, (2, 3)), PyTree[int, "T"])
        RESULT["left_scope"] = "ok"
    except BaseException as e:
        RESULT["left_scope"] = type(e).__name__ + ": " + str(e)[:100]

@pytest.fixture(scope="session", autouse=True)
def background_worker():
    t = threading.Thread(target=worker)
    t.start()
    IN_SCOPE.wait(60)
    yield
    GO.set()
    t.join(60)
    json.dump(RESULT, open("worker.json", "w"))
'''
PYTEST_TESTS = '''
import numpy as np
from jaxtyping import Float, jaxtyped
import typeguard

@jaxtyped(typechecker=typeguard.typechecked)
def f(x: Float[np.ndarray, "n"]):
    return 0

def test_one():
    f(np.zeros(5, dtype="float32"))

def test_two():
    f(np.zeros(6, dtype="float32"))

def test_three():
    import conftest
    conftest.GO.set()
    f(np.zeros(7, dtype="float32"))
'''


def arm_pytest_session(rec):
    """a worker thread that is INSIDE a scope while a pytest session (plugin loaded) sets up and runs one test after
    the other in the main thread: its bindings are still its own when it resumes"""
    import json
    import os
    import shutil
    import subprocess
    import sys
    import tempfile

    d = tempfile.mkdtemp(prefix="jtv_c06_pytest_")
    try:
        open(os.path.join(d, "conftest.py"), "w").write(PYTEST_CONFTEST)
        open(os.path.join(d, "test_session.py"), "w").write(PYTEST_TESTS)
        env = dict(os.environ)
        env["PYTHONPATH"] = d + os.pathsep + env.get("PYTHONPATH", "")
        r = subprocess.run([sys.executable, "-m", "pytest", "-q", "-p", "no:cacheprovider", "test_session.py"], cwd=d, env=env, capture_output=True, text=True, timeout=600)
        try:
            out = json.load(open(os.path.join(d, "worker.json")))
        except Exception:
            rec.inconclusive.append(f"pytest session arm produced no observation: {(r.stdout + r.stderr)[-300:]}")
            return
        rec.count("pytest_session.runs")
        rec.case(("pytest-session",), True)
        want = {"bound": True, "tree": True, "other_size_rejected": True, "other_tree_rejected": True, "left_scope": "ok"}
        if out != want:
            rec.violation("isolation", {"pytest_session": True, "observed": out}, f"worker thread inside a scope while three tests were set up and run in the main thread: {out}, expected {want}", mechanism="pytest-session-disturbs-worker-thread")
    finally:
        shutil.rmtree(d, ignore_errors=True)


def measure_windows(rec):
    """evidence: confirm that the catalogued operations really open the windows that
    matter (flatten flag True / '?' label set / context open / rollback) while traced."""
    from jaxtyping import _storage as S

    seen = {"flat": 0, "path": 0, "ctx": 0}

    def policy(baton, me, k, where):
        try:
            if getattr(S._treeflatten_storage, "value", False):
                seen["flat"] += 1
            if getattr(S._treepath_storage, "value", None) is not None:
                seen["path"] += 1
            if len(getattr(S._shape_storage, "memo_stack", [])) > 0:
                seen["ctx"] += 1
        except Exception:
            pass
        return None

    rb = {"n": 0}
    orig = getattr(S, "set_shape_memo", None)
    for fn in OPS.values():
        SCH.run([lambda: fn(1)], policy)
    rec.count("windows.flatten_flag_true", seen["flat"])
    rec.count("windows.treepath_set", seen["path"])
    rec.count("windows.context_open", seen["ctx"])
    rec.count("windows.rollback", shadowstore.counters.get("set", 0))


def run_shard(rec, seed, shard, tier):
    warnings.filterwarnings("ignore")
    prepare()
    refresh_fresh()
    att = shadowstore.attach()
    rec.info["shadow_store_attached"] = att
    # solo determinism first
    for name, fn in ALL.items():
        if fn(1) != fn(1):
            rec.inconclusive.append(f"operation {name} is not deterministic solo")
            return
    if shard["i"] == 0:
        measure_windows(rec)
    run_single_preemptions(rec, shard, tier)
    run_random(rec, seed, shard, tier)
    if shard["i"] in (1, 2):
        run_stress(rec, seed, shard, tier)
    if shard["i"] in (3, 4):
        run_raw_threads(rec, seed, shard, tier)
    if shard["i"] == 5:
        arm_pytest_session(rec)
    rec.count("shadow.get_events", shadowstore.counters["get_shape"] + shadowstore.counters["get_flat"] + shadowstore.counters["get_path"])
    if att and shadowstore.counters["get_shape"] == 0:
        rec.inconclusive.append("shadow store attached but saw no get_shape_memo event")
    rec.sample({"single_preemption": ["qtree", "wrong_dtype", "k=1..K"], "random": {"threads": 3, "p": 0.05}})


def replay(rec, case):
    warnings.filterwarnings("ignore")
    prepare()
    refresh_fresh()
    shadowstore.attach()
    if "op" in case and "k" in case:
        fa, fb = OPS[case["op"]], PROBES[case["probe"]]
        exp_a, exp_b = solo(fa, 1), solo(fb, 2)
        res, bat = SCH.run([lambda: fa(1), lambda: fb(2)], SCH.preempt_once(0, case["k"], 1), opcodes=case.get("opcodes", False))
        if res[0] != exp_a or res[1] != exp_b:
            rec.violation("isolation", case, f"got {res} expected {(exp_a, exp_b)}", mechanism="replay")
    elif "schedule_seed" in case and "plans" in case:
        plans = case["plans"]
        exp = [[ALL[n](k) for n, k in plan] for plan in plans]
        prng = random.Random(case["schedule_seed"] + "/policy")
        mk = lambda plan: (lambda: [ALL[n](k) for n, k in plan])
        res, bat = SCH.run([mk(p) for p in plans], SCH.random_preempt(prng, 0.05))
        for t in range(len(plans)):
            if res[t] != ("ok", exp[t]):
                rec.violation("isolation", case, f"thread {t} deviates", mechanism="replay")
    drain_shadow(rec, case)

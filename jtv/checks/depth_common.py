"""Parent side of depth_child.py (used by C04 and C08)."""
import json
import os
import subprocess
import sys


def arm_checks_near_recursion_limit(rec, prefixes, margins=70):
    """isinstance checks made 2..margins frames below the recursion limit, in a fresh process: a check may die with
    RecursionError there, but it never gives another answer than at ordinary depth, and unless it answers True it
    leaves the enclosing scope's bindings exactly as they were"""
    root = os.path.dirname(os.path.dirname(os.path.dirname(os.path.abspath(__file__))))
    env = dict(os.environ)
    env["PYTHONPATH"] = os.pathsep.join([os.environ.get("JTV_REPO", "/repo"), root])
    r = subprocess.run([sys.executable, os.path.join(root, "jtv", "checks", "depth_child.py"), str(margins), ",".join(prefixes)], capture_output=True, text=True, env=env, timeout=1200, cwd=root)
    try:
        res = json.loads(r.stdout.strip().splitlines()[-1])
    except Exception:
        rec.inconclusive.append(f"depth child failed: rc={r.returncode} {r.stderr[-400:]}")
        return
    for c in res["cases"]:
        rec.count("near_recursion_limit.checks")
        rec.count("near_recursion_limit.died_with_RecursionError", int(c["got"] == "RecursionError"))
        rec.case(("near-recursion-limit", c["case"], c["margin"]), c["got"] == "RecursionError")
        case = {"near_recursion_limit": c}
        if c["got"] not in (c["baseline"], "RecursionError"):
            rec.violation("verdict", case, f"{c['case']}: at ordinary depth the check answers {c['baseline']}; made {c['margin']} frames below the recursion limit it answers {c['got']}", mechanism=f"near-recursion-limit-{c['baseline']}-became-{c['got']}")
            return
        if c["got"] == c["baseline"] and not c["after_is_baseline"]:
            rec.violation("bindings", case, f"{c['case']}: answered {c['got']} {c['margin']} frames below the recursion limit but left other bindings than at ordinary depth: ...{c['after']}", mechanism="near-recursion-limit-bindings-differ")
            return
        if c["got"] == "RecursionError" and not c["after_is_before"]:
            rec.violation("rollback", case, f"{c['case']}: died with RecursionError {c['margin']} frames below the recursion limit and left bindings behind: ...{c['after']}", mechanism="stale-binding-after-RecursionError")
            return

"""C07 — on well-typed calls a decorated function is indistinguishable from the original."""

from __future__ import annotations

import inspect
import random
import warnings

import numpy as np

from .. import real

LEVEL = "exploration"
TECHNIQUE = "runtime monitoring: the undecorated function is the specification - generated callables (all five parameter kinds, defaults, hostile parameter names, def/async def/lambda, method/classmethod/staticmethod/property) are called plain and decorated with the same argument objects; body-run counter, id() of every received argument, result/exception identity and metadata are compared; class construction with inherited __init__; a typechecker with a cross-parameter constraint; quoted annotations; decorated calls and config updates made from a __repr__ while the library formats an error message; properties derived from a decorated property with .getter/.setter/.deleter; functions without return annotation whose bodies update their arguments in place"
LEVEL_TEXT = (
    "Held on every generated callable x argument list explored (thousands of signatures per run; binding well-typed, "
    "ill-typed and non-binding calls; both typecheckers). Sampling over signatures, not proof."
)
LEVEL_NOTE = "Trusts that id()-equality of received arguments and identity of the result/exception object capture 'the very same objects'."
RULE = (
    "one case = (generated signature with parameter kinds/defaults/names, callable kind, descriptor kind, typechecker, "
    "argument list); non-trivial = signature has >=2 parameter kinds or a hostile name or a default; distinct by "
    "(source text, call description, checker)."
)
ASSUMPTIONS = ["async def callables are generated without a return annotation (the un-awaited coroutine object would be what gets checked: reading left open, reported as informational)"]
CASES = {"quick": 700, "thorough": 8000}
NSHARDS = 16

HOSTILE = ["T0", "T1", "T2", "default0", "default1", "ret0", "ret1", "check_single_arg", "target", "self_", "cls_", "args", "kwargs", "typechecker", "memos", "fn", "bound", "out", "name", "scope", "Any", "jaxtyping", "typing", "x", "y", "n", "_", "__", "return_", "inspect", "e", "msg"]


def harvested_names():
    """every parameter / local-variable / function name that occurs in the decorator's own source: a user
    keyword spelled like one of them must never be captured by the wrapper (refactor-proof: read at run time)"""
    import ast
    import keyword
    import os

    import jaxtyping

    out = set()
    path = os.path.join(os.path.dirname(jaxtyping.__file__), "_decorator.py")
    try:
        tree = ast.parse(open(path).read())
    except Exception:
        return []
    for n in ast.walk(tree):
        if isinstance(n, ast.arg):
            out.add(n.arg)
        elif isinstance(n, ast.Name) and isinstance(n.ctx, ast.Store):
            out.add(n.id)
        elif isinstance(n, (ast.FunctionDef, ast.ClassDef)):
            out.add(n.name)
    return sorted(x for x in out if x.isidentifier() and not keyword.iskeyword(x) and not x.startswith("__") and x not in ("self", "cls"))


_HARVESTED = None


def hostile_pool():
    global _HARVESTED
    if _HARVESTED is None:
        _HARVESTED = harvested_names()
    return HOSTILE + _HARVESTED


def shards(tier):
    return [{"i": i} for i in range(NSHARDS)]


def required_counters(tier):
    return {
        "calls.well_typed": 1000, "classes.constructions": 30, "joint_typechecker.calls": 5, "coroutine_protocol.scripts": 10, "how_called.calls": 12, "factory.calls": 18, "property_derivation.compared": 20, "mutating_bodies.calls": 8, "signature_sources.targets": 4,
        "calls.ill_typed": 300,
        "calls.non_binding": 300,
        "kind.def": 300,
        "kind.async": 50,
        "kind.lambda": 50,
        "desc.method": 30,
        "desc.classmethod": 30,
        "desc.staticmethod": 30,
        "desc.property": 20,
        "sig.posonly": 100,
        "sig.varargs": 100,
        "sig.kwonly": 100,
        "sig.varkw": 100,
        "sig.defaults": 200,
        "sig.hostile_names": 500, "sig.arg_symbolic": 100,
        "exc.propagated": 100,
        "metadata.compared": 500, "style.double": 50, "same_def_decorated_twice": 30, "sig.kw_named_like_posonly": 50,
    }


class Boom(Exception):
    pass


def gen_sig(rng):
    """-> list of params: dict(name, kind, ann: None|'arr'|'int', default: bool)"""
    pool = hostile_pool()
    names = rng.sample(HOSTILE, 5) + rng.sample(pool, 4)
    names = list(dict.fromkeys(names))
    while len(names) < 9:
        c = rng.choice(pool)
        if c not in names:
            names.append(c)
    rng.shuffle(names)
    params = []
    npos = rng.choice((0, 0, 1, 2))
    npk = rng.choice((0, 1, 1, 2))
    var = rng.random() < 0.4
    nkw = rng.choice((0, 0, 1, 2))
    varkw = rng.random() < 0.4
    it = iter(names)
    seen_default = False
    for kind, cnt in (("posonly", npos), ("pk", npk)):
        for _ in range(cnt):
            d = seen_default or rng.random() < 0.3
            seen_default = seen_default or d
            params.append({"name": next(it), "kind": kind, "ann": rng.choice((None, "arr", "arr", "int")), "default": d})
    if var:
        params.append({"name": next(it), "kind": "var", "ann": rng.choice((None, "arr")), "default": False})
    for _ in range(nkw):
        params.append({"name": next(it), "kind": "kwonly", "ann": rng.choice((None, "arr", "int")), "default": rng.random() < 0.4})
    if varkw:
        params.append({"name": next(it), "kind": "varkw", "ann": rng.choice((None, "int")), "default": False})
    if rng.random() < 0.25:
        # some annotations are written as strings (forward references / `from __future__ import annotations` style):
        # the decorated function's signature must show them exactly as the plain one does
        for p in params:
            p["quoted"] = p["ann"] is not None and rng.random() < 0.6
    return params


def sig_src(params, as_lambda=False):
    parts = []
    did_slash = False
    star_done = False
    for i, p in enumerate(params):
        if p["kind"] != "posonly" and not did_slash and any(q["kind"] == "posonly" for q in params):
            parts.append("/")
            did_slash = True
        a = "" if (p["ann"] is None or as_lambda) else (f': "_jtv_T{i}"' if p.get("quoted") else f": _jtv_T{i}")
        d = f" = _jtv_D{i}" if p["default"] else (f"=_jtv_D{i}" if False else "")
        if p["kind"] == "var":
            parts.append(f"*{p['name']}{a}")
            star_done = True
        elif p["kind"] == "kwonly":
            if not star_done:
                parts.append("*")
                star_done = True
            parts.append(f"{p['name']}{a}{d}")
        elif p["kind"] == "varkw":
            parts.append(f"**{p['name']}{a}")
        else:
            parts.append(f"{p['name']}{a}{d}")
    if not did_slash and any(q["kind"] == "posonly" for q in params):
        parts.append("/")
    return ", ".join(parts)


def record_expr(params):
    items = []
    for p in params:
        if p["kind"] == "var":
            items.append(f"tuple(map(id, {p['name']}))")
        elif p["kind"] == "varkw":
            items.append(f"tuple(sorted((k, id(v)) for k, v in {p['name']}.items()))")
        else:
            items.append(f"id({p['name']})")
    return "(" + ", ".join(items) + ("," if len(items) == 1 else "") + ")"


def make_values(rng, params, well_typed=True):
    """argument objects: dict name -> value (or tuple / dict for var / varkw) + the defaults"""
    import jaxtyping

    vals, defaults, anns = {}, {}, {}
    size = 3
    # sometimes one array parameter's axis is the *value* of an int parameter ("{name}"):
    # needs the call's arguments, defaults included, to reach the symbolic evaluation
    ints = [p for p in params if p["ann"] == "int" and p["kind"] in ("posonly", "pk", "kwonly")]
    arrs = [p for p in params if p["ann"] == "arr" and p["kind"] in ("posonly", "pk", "kwonly")]
    link = None
    if ints and arrs and rng.random() < 0.6:
        link = (rng.choice(ints)["name"], rng.choice(arrs)["name"], rng.choice((1, 2, 4)))
    for i, p in enumerate(params):
        if link and p["name"] == link[1]:
            anns[i] = jaxtyping.Float[np.ndarray, "{" + link[0] + "}"]
            mk = lambda: np.zeros((link[2],), dtype="float32")
        elif link and p["name"] == link[0]:
            anns[i] = int
            mk = lambda: int(str(link[2]))  # equal value for the argument and the default
        elif p["ann"] == "arr":
            anns[i] = jaxtyping.Float[np.ndarray, "a"]
            mk = lambda: np.zeros((size,), dtype="float32")
        elif p["ann"] == "int":
            anns[i] = int
            mk = lambda: rng.randint(1000, 10**6)
        else:
            mk = lambda: [rng.random()]  # fresh mutable object: identity matters
        if p["kind"] == "var":
            vals[p["name"]] = tuple(mk() for _ in range(rng.choice((0, 1, 2))))
        elif p["kind"] == "varkw":
            vals[p["name"]] = {f"extra{j}": mk() for j in range(rng.choice((0, 1, 2)))}
            # a keyword spelled like a positional-only parameter legitimately lands in **kwargs
            posonly = [q["name"] for q in params if q["kind"] == "posonly"]
            if posonly and rng.random() < 0.6:
                vals[p["name"]][rng.choice(posonly)] = mk()
                vals["__kw_like_posonly__"] = True
        else:
            vals[p["name"]] = mk()
            if p["default"]:
                defaults[i] = mk()
    return vals, defaults, anns


def build_call(rng, params, vals):
    """-> (args list, kwargs dict, description) that binds; uses defaults sometimes"""
    args, kwargs = [], {}
    skipped = []
    positional_open = True
    for p in params:
        if p["kind"] == "posonly":
            if p["default"] and rng.random() < 0.4:
                positional_open = False
                skipped.append(p["name"])
                continue
            if not positional_open:
                skipped.append(p["name"])
                continue
            args.append(vals[p["name"]])
        elif p["kind"] == "pk":
            if p["default"] and rng.random() < 0.4:
                positional_open = False
                skipped.append(p["name"])
                continue
            if positional_open and rng.random() < 0.5:
                args.append(vals[p["name"]])
            else:
                positional_open = False
                kwargs[p["name"]] = vals[p["name"]]
        elif p["kind"] == "var":
            if positional_open:
                args.extend(vals[p["name"]])
        elif p["kind"] == "kwonly":
            if p["default"] and rng.random() < 0.4:
                skipped.append(p["name"])
                continue
            kwargs[p["name"]] = vals[p["name"]]
        elif p["kind"] == "varkw":
            kwargs.update(vals[p["name"]])
    # posonly params skipped in the middle make later positional passing impossible: validated by the plain call
    return args, kwargs


def run_case(rec, rng, rngkey=None):
    import beartype
    import typeguard

    import jaxtyping
    from jaxtyping import TypeCheckError, jaxtyped

    params = gen_sig(rng)
    kind = rng.choice(("def", "def", "def", "def", "async", "lambda"))
    desc = rng.choice(("function", "function", "function", "method", "classmethod", "staticmethod", "property"))
    if kind == "lambda":
        desc = "function"
    if desc == "property":
        params = []
    checker_name = rng.choice(("typeguard", "beartype"))
    checker = {"typeguard": typeguard.typechecked, "beartype": beartype.beartype}[checker_name]
    style = "new" if rng.random() < 0.8 or kind != "def" or desc != "function" else rng.choice(("old", "double"))
    raise_exc = rng.random() < 0.2
    vals, defaults, anns = make_values(rng, params)
    if vals.pop("__kw_like_posonly__", False):
        rec.count("sig.kw_named_like_posonly")
    if any("{" in getattr(a, "dim_str", "") for a in anns.values()):
        rec.count("sig.arg_symbolic")
    RES = rng.choice((object(), [1, 2], {"k": 1}, np.zeros(2), (1, 2), "text"))
    EXC = Boom("from the body") if raise_exc else None
    ns = {"_jtv_REC": [], "_jtv_RES": RES, "_jtv_EXC": EXC, "__name__": "jtv_c07_generated"}
    for i in anns:
        ns[f"_jtv_T{i}"] = anns[i]
    for i in defaults:
        ns[f"_jtv_D{i}"] = defaults[i]
    fname = "target"
    first = {"method": "self", "classmethod": "cls", "property": "self"}.get(desc)
    sig = sig_src(params, as_lambda=(kind == "lambda"))
    full_sig = ", ".join(x for x in (first, sig) if x)
    rexpr = record_expr(params)
    if kind == "lambda":
        src = f"{fname} = lambda {sig}: (_jtv_REC.append({rexpr}), _jtv_RES)[1]\n"
        raise_exc = False
        EXC = None
    else:
        body = f"    '''doc of target'''\n    _jtv_REC.append({rexpr})\n" + ("    raise _jtv_EXC\n" if raise_exc else "    return _jtv_RES\n")
        src = f"{'async ' if kind == 'async' else ''}def {fname}({full_sig}):\n{body}"
    case = {"rngkey": rngkey, "source": src, "kind": kind, "descriptor": desc, "checker": checker_name, "style": style}
    try:
        real.exec_src(src, ns)
    except SyntaxError as e:
        rec.inconclusive.append(f"harness generated invalid source: {e}: {src}")
        return
    plain = ns[fname]
    if kind == "lambda":
        plain.__annotations__ = {p["name"]: anns[i] for i, p in enumerate(params) if i in anns}
    # decorate
    if style == "new":
        deco = lambda f: jaxtyped(typechecker=checker)(f)
    elif style == "double":
        # decorated twice: first without a typechecker (manual isinstance style), then with one
        deco = lambda f: jaxtyped(typechecker=checker)(jaxtyped(typechecker=None)(f))
        rec.count("style.double")
    else:
        deco = lambda f: jaxtyped(checker(f))
    wrap_in = {"function": lambda f: f, "method": lambda f: f, "classmethod": classmethod, "staticmethod": staticmethod, "property": property}[desc]
    try:
        with warnings.catch_warnings():
            warnings.simplefilter("ignore")
            decorated_obj = deco(wrap_in(plain))
    except BaseException as e:  # noqa
        rec.case((src, "decorate", checker_name), True)
        rec.violation("decorate", case, f"decorating a {kind} ({desc}) raised {type(e).__name__}: {str(e)[:200]}", mechanism=f"decorate-{kind}-raises-{type(e).__name__}")
        return
    rec.count("kind." + kind)
    rec.count("desc." + desc)
    for k in {p["kind"] for p in params}:
        rec.count({"posonly": "sig.posonly", "pk": "sig.pk", "var": "sig.varargs", "kwonly": "sig.kwonly", "varkw": "sig.varkw"}[k])
    if defaults:
        rec.count("sig.defaults")
    rec.count("sig.hostile_names", len(params))
    nontriv = len({p["kind"] for p in params}) >= 2 or bool(defaults)

    # ---- the same def decorated a second time with annotations that are DIFFERENT objects printing the same
    if kind == "def" and desc == "function" and style == "new" and anns and rng.random() < 0.3:
        import jaxtyping as _jt

        Tensor1 = type("Tensor", (), {"shape": (3,), "dtype": "float32"})
        Tensor2 = type("Tensor", (), {"shape": (3,), "dtype": "float32"})
        i0 = sorted(anns)[0]
        pname = params[i0]["name"]
        if params[i0]["kind"] in ("posonly", "pk", "kwonly") and not any("{" in getattr(a, "dim_str", "") for a in anns.values()):
            outcomes = []
            for T in (Tensor1, Tensor2):
                ns2 = dict(ns)
                ns2["_jtv_REC"] = []
                ns2[f"_jtv_T{i0}"] = _jt.Shaped[T, "..."]
                real.exec_src(src, ns2)
                g = jaxtyped(typechecker=checker)(ns2[fname])
                v2 = dict(vals)
                v2[pname] = T()
                a2, k2 = build_call(random.Random(rngkey + "/twice"), params, v2)
                passed = any(v is v2[pname] for v in a2) or any(v is v2[pname] for v in k2.values())
                try:
                    g(*a2, **k2)
                    outcomes.append(("ret", len(ns2["_jtv_REC"]), passed))
                except BaseException as e:  # noqa
                    outcomes.append((type(e).__name__, len(ns2["_jtv_REC"]), passed))
            rec.count("same_def_decorated_twice")
            rec.case((src, "twice", checker_name), True)
            ok_kinds = ("ret", "Boom")
            if all(o[2] for o in outcomes) and (outcomes[0][0] in ok_kinds) and outcomes[1][0] not in ok_kinds:
                rec.violation("redecoration", case, f"the same def decorated twice with equal-looking but different annotation classes: first call {outcomes[0]}, second (well-typed for ITS annotations) {outcomes[1]}", mechanism="second-decoration-uses-first-decorations-checkers")

    # ---- metadata
    K_plain = type("K", (), {"m": wrap_in(plain)}) if desc != "function" else None
    K_deco = type("K", (), {"m": decorated_obj}) if desc != "function" else None
    rec.count("metadata.compared")
    if desc == "function":
        und, dec = plain, decorated_obj
    elif desc == "property":
        und, dec = plain, decorated_obj.fget
    else:
        und = plain
        dec = decorated_obj.__func__ if desc in ("classmethod", "staticmethod") else decorated_obj
    for attr in ("__name__", "__qualname__", "__doc__", "__module__"):
        if getattr(und, attr, None) != getattr(dec, attr, None):
            rec.violation("metadata", case, f"{attr}: plain {getattr(und, attr, None)!r} vs decorated {getattr(dec, attr, None)!r}", mechanism="metadata-" + attr)
    try:
        if inspect.signature(und) != inspect.signature(dec):
            rec.violation("metadata", case, f"signature: plain {inspect.signature(und)} vs decorated {inspect.signature(dec)}", mechanism="metadata-signature")
    except (ValueError, TypeError):
        pass
    if desc != "function":
        k1, k2 = type(inspect.getattr_static(K_plain, "m")), type(inspect.getattr_static(K_deco, "m"))
        if k1 is not k2:
            rec.violation("metadata", case, f"descriptor kind: plain {k1.__name__} vs decorated {k2.__name__}", mechanism="descriptor-kind")

    # ---- calls
    def invoke(which, args, kwargs):
        REC = ns["_jtv_REC"]
        REC.clear()
        if desc == "function":
            f = plain if which == "plain" else decorated_obj
            call = lambda: f(*args, **kwargs)
        else:
            K = K_plain if which == "plain" else K_deco
            if desc == "property":
                call = lambda: K().m
            elif desc == "method":
                inst = K()
                call = lambda: inst.m(*args, **kwargs)
            else:
                call = lambda: K.m(*args, **kwargs)
        try:
            out = call()
            if kind == "async":
                try:
                    out.send(None)
                    outcome = ("async-did-not-finish", None)
                except StopIteration as si:
                    outcome = ("ret", si.value)
                except BaseException as e:  # noqa
                    outcome = ("exc", e)
            else:
                outcome = ("ret", out)
        except BaseException as e:  # noqa
            outcome = ("exc", e)
        return outcome, [tuple(r) for r in REC]

    KNOWN_BIND = "parameter is positional only, but was passed as a keyword"

    def spurious_bind_error(o_plain, o_deco):
        """CPython's inspect.Signature.bind rejects f(a=5) for `def f(a=1, /, **kw)` although the call is legal"""
        return o_deco[0] == "exc" and type(o_deco[1]) is TypeError and KNOWN_BIND in str(o_deco[1]) and not (o_plain[0] == "exc" and type(o_plain[1]) is TypeError)

    # (1) well-typed binding call
    args, kwargs = build_call(rng, params, vals)
    o1, r1 = invoke("plain", args, kwargs)
    if o1[0] == "exc" and not (raise_exc and o1[1] is EXC):
        rec.count("harness.call_did_not_bind")
    else:
        o2, r2 = invoke("deco", args, kwargs)
        rec.case((src, "well", checker_name, style), nontriv)
        rec.count("calls.well_typed")
        if raise_exc:
            rec.count("exc.propagated")
        if spurious_bind_error(o1, o2):
            rec.violation("well-typed-call-rejected", case, f"plain call works ({o1[0]}), decorated raises TypeError: {o2[1]}", mechanism="inspect-bind-rejects-keyword-named-like-omitted-posonly-default")
            return
        if len(r2) != 1:
            rec.violation("body-runs", case, f"well-typed call: body ran {len(r2)} times (plain: {len(r1)})", mechanism=f"body-ran-{len(r2)}-times")
        elif r2 != r1:
            rec.violation("argument-identity", case, f"body received different objects: plain ids {r1} decorated ids {r2}", mechanism="argument-identity")
        if o2[0] != o1[0] or o2[1] is not o1[1]:
            rec.violation("result-identity", case, f"plain {o1[0]} {type(o1[1]).__name__} vs decorated {o2[0]} {type(o2[1]).__name__}: {str(o2[1])[:200]}", mechanism=f"result-{o1[0]}-vs-{o2[0]}-{type(o2[1]).__name__}")
    # (2) ill-typed call: break one annotated positional/keyword value
    linked_ints = {n for a in anns.values() for n in [getattr(a, "dim_str", "")[1:-1]] if "{" in getattr(a, "dim_str", "")}
    # (an int parameter whose value feeds a "{name}" axis is not made ill-typed: a non-int there makes the
    #  symbolic expression itself malformed, which the property does not speak about)
    ann_params = [p for i, p in enumerate(params) if i in anns and p["kind"] in ("posonly", "pk", "kwonly") and p["name"] not in linked_ints]
    if ann_params and kind != "lambda" or (ann_params and kind == "lambda"):
        bad_vals = dict(vals)
        p = rng.choice(ann_params)
        i = params.index(p)
        bad_vals[p["name"]] = np.zeros((2, 2), dtype="float32") if p["ann"] == "arr" else "not an int"
        a2, k2 = build_call(random.Random(rngkey + "/ill"), params, bad_vals)
        passed = any(v is bad_vals[p["name"]] for v in a2) or any(v is bad_vals[p["name"]] for v in k2.values())
        o1, r1 = invoke("plain", a2, k2)
        if passed and not (o1[0] == "exc" and not (raise_exc and o1[1] is EXC)):
            o2, r2 = invoke("deco", a2, k2)
            rec.case((src, "ill", checker_name, style), nontriv)
            rec.count("calls.ill_typed")
            if spurious_bind_error(o1, o2):
                rec.violation("well-typed-call-rejected", case, f"ill-typed variant: decorated raises the bind TypeError: {o2[1]}", mechanism="inspect-bind-rejects-keyword-named-like-omitted-posonly-default")
                return
            if len(r2) != 0:
                rec.violation("body-ran-on-ill-typed", case, f"ill-typed call ({p['name']} violates its annotation) but the body ran {len(r2)} times", mechanism="body-ran-on-ill-typed")
            elif o2[0] != "exc" or not (isinstance(o2[1], TypeError) or (style == "old" and "Violation" in type(o2[1]).__name__)):
                rec.violation("ill-typed-not-rejected", case, f"ill-typed call returned {o2}", mechanism="ill-typed-accepted")
            elif style in ("new", "double") and not isinstance(o2[1], TypeCheckError):
                rec.violation("ill-typed-wrong-error", case, f"new-style ill-typed call raised {type(o2[1]).__name__}", mechanism="ill-typed-error-" + type(o2[1]).__name__)
    # (3) non-binding call
    if desc != "property":
        nb = rng.choice(("extra_kw", "missing", "too_many"))
        a3, k3 = list(args), dict(kwargs)
        if nb == "extra_kw":
            k3["_jtv_no_such_parameter"] = 1
        elif nb == "missing":
            a3, k3 = [], {}
        else:
            a3 = a3 + [1, 2, 3, 4, 5, 6, 7]
        o1, r1 = invoke("plain", a3, k3)
        if o1[0] == "exc" and type(o1[1]) is TypeError and not r1:
            o2, r2 = invoke("deco", a3, k3)
            rec.case((src, "nonbinding", nb, checker_name, style), nontriv)
            rec.count("calls.non_binding")
            if r2:
                rec.violation("body-ran-on-non-binding", case, f"non-binding call ({nb}) ran the body", mechanism="body-ran-on-non-binding")
            elif o2[0] != "exc" or type(o2[1]) is not TypeError:
                rec.violation("non-binding-error", case, f"non-binding call ({nb}): plain raises TypeError, decorated {o2[0]} {type(o2[1]).__name__}: {str(o2[1])[:150]}", mechanism=f"non-binding-{type(o2[1]).__name__}")


CLASS_SRC = {
    # a decorated dataclass of its own (reference shape)
    "own-init": """
@jaxtyped(typechecker=tc)
@dataclasses.dataclass
class K:
    x: Float[N, "n"]
    y: Float[N, "n"]
    def __post_init__(self):
        LOG.append("body")
""",
    # the __init__ in use is INHERITED from an undecorated dataclass (a library's), the subclass is decorated
    "inherited-from-undecorated-dataclass": """
@dataclasses.dataclass
class Base:
    x: Float[N, "n"]
    y: Float[N, "n"]
    def __post_init__(self):
        LOG.append("body")
@jaxtyped(typechecker=tc)
class K(Base):
    def dot(self):
        return 0
""",
    "dataclass-init-false-child": """
@dataclasses.dataclass
class Base:
    x: Float[N, "n"]
    y: Float[N, "n"]
    def __init__(self, x: Float[N, "n"], y: Float[N, "n"]):
        LOG.append("body")
        self.x = x
        self.y = y
@jaxtyped(typechecker=tc)
@dataclasses.dataclass(init=False)
class K(Base):
    pass
""",
    "decorated-parent-plain-child": """
@jaxtyped(typechecker=tc)
@dataclasses.dataclass
class Base:
    x: Float[N, "n"]
    y: Float[N, "n"]
    def __post_init__(self):
        LOG.append("body")
class K(Base):
    pass
""",
    "equinox-module-inherited-init": """
class Base(eqx.Module):
    x: Float[N, "n"]
    y: Float[N, "n"]
    def __init__(self, x: Float[N, "n"], y: Float[N, "n"]):
        LOG.append("body")
        self.x = x
        self.y = y
@jaxtyped(typechecker=tc)
class K(Base):
    def dot(self):
        return 0
""",
    "equinox-module-own-fields": """
@jaxtyped(typechecker=tc)
class K(eqx.Module):
    x: Float[N, "n"]
    y: Float[N, "n"]
    def __post_init__(self):
        LOG.append("body")
""",
}


def arm_classes(rec):
    """(what is checked is the signature of the __init__ in use: generated by @dataclass from the fields, or
    hand-written WITH annotations)
    constructing a decorated class: ill-typed fields are refused before the body (__init__ / __post_init__) has
    run, well-typed ones run it exactly once - wherever the __init__ the class uses was defined"""
    import dataclasses

    import beartype
    import equinox as eqx
    import typeguard

    from jaxtyping import Float, jaxtyped

    good, good2 = real.np_array((3,)), real.np_array((3,))
    bad_rank, bad_size, bad_dtype = real.np_array((3, 4)), real.np_array((5,)), real.np_array((3,), "int32")
    for cname, tc in (("typeguard", typeguard.typechecked), ("beartype", beartype.beartype)):
        for kind, src in CLASS_SRC.items():
            LOG = []
            ns = {"dataclasses": dataclasses, "eqx": eqx, "Float": Float, "N": np.ndarray, "jaxtyped": jaxtyped, "tc": tc, "LOG": LOG}
            real.exec_src(src, ns)
            K = ns["K"]
            for iname, args, kwargs, well in (
                ("well", (good, good2), {}, True),
                ("well-kw", (), {"x": good, "y": good2}, True),
                ("ill-rank", (bad_rank, good), {}, False),
                ("ill-size-kw", (), {"x": good, "y": bad_size}, False),
                ("ill-dtype", (good, bad_dtype), {}, False),
            ):
                del LOG[:]
                try:
                    K(*args, **kwargs)
                    got = "constructed"
                except Exception as e:  # noqa
                    got = type(e).__name__
                rec.count("classes.constructions")
                rec.case(("class", kind, cname, iname), True)
                # the body of a dataclass __init__ is generated code that runs BEFORE the fields can be checked: what
                # the property promises for a violated construction is the error; for a hand-written __init__ that is
                # inherited the same holds. "Not run at all" is judged for functions; here: error iff violated.
                if well and (got != "constructed" or LOG != ["body"]):
                    rec.violation("class-construction", {"kind": kind, "checker": cname, "input": iname}, f"{kind} ({cname}): well-typed construction gave {got}, body ran {len(LOG)}x", mechanism=f"class-{kind}-well-typed-{got}")
                if not well and got == "constructed":
                    rec.violation("class-construction", {"kind": kind, "checker": cname, "input": iname}, f"{kind} ({cname}): ill-typed construction ({iname}) was accepted, body ran {len(LOG)}x", mechanism=f"class-{kind}-ill-typed-accepted")


def arm_joint_typechecker(rec):
    """a typechecker is any decorator that raises TypeError: one whose constraint spans SEVERAL parameters (all
    `Same`-annotated arguments must have one type) rejects a call in which no single parameter is to blame -
    the body still must not run, and the error still is a TypeCheckError"""
    import functools

    from jaxtyping import Float, TypeCheckError, jaxtyped

    class Same:
        pass

    def joint(fn):
        sig = inspect.signature(fn)

        @functools.wraps(fn)
        def w(*a, **k):
            b = sig.bind(*a, **k)
            kinds = set()
            for n, v in b.arguments.items():
                if sig.parameters[n].annotation is Same:
                    kinds |= {type(e) for e in v} if sig.parameters[n].kind is inspect.Parameter.VAR_POSITIONAL else {type(v)}
            if len(kinds) > 1:
                raise TypeError(f"Same-annotated parameters have different types: {sorted(t.__name__ for t in kinds)}")
            return fn(*a, **k)

        return w

    LOG = []
    ns = {"Same": Same, "Float": Float, "N": np.ndarray, "LOG": LOG}
    real.exec_src('def f(x: Same, y: Same, z: Float[N, "a"] = None, *rest: Same):\n    LOG.append("body")\n    return "ret"\n', ns)
    f = jaxtyped(typechecker=joint)(ns["f"])
    arr = real.np_array((2,))
    for iname, args, well in (("well", (1, 2, arr), True), ("well-rest", (1, 2, arr, 3, 4), True), ("ill-pair", (1, "a", arr), False), ("ill-rest", (1, 2, arr, "s"), False), ("ill-pair-kw", None, False)):
        del LOG[:]
        try:
            out = f(x=1, y="a") if args is None else f(*args)
            got = "returned"
        except BaseException as e:  # noqa
            got = "TypeCheckError" if isinstance(e, TypeCheckError) else type(e).__name__
        rec.count("joint_typechecker.calls")
        rec.case(("joint", iname), True)
        if well and (got != "returned" or LOG != ["body"]):
            rec.violation("joint-constraint", {"input": iname}, f"typechecker with a cross-parameter constraint: well-typed call {iname} gave {got}, body ran {len(LOG)}x", mechanism="joint-typechecker-well-typed-" + got)
        if not well and (got != "TypeCheckError" or LOG):
            rec.violation("joint-constraint", {"input": iname}, f"typechecker with a cross-parameter constraint: violated call {iname} gave {got}, body ran {len(LOG)}x (expected TypeCheckError, body not run)", mechanism="joint-typechecker-violated-" + got + ("-body-ran" if LOG else ""))


def arm_coroutine_protocol(rec):
    """a decorated coroutine function driven the way an event loop drives it - send, throw (cancellation, timeout)
    into a suspended body that survives it, send again, close: the same sequence of results and exceptions as the
    plain coroutine function"""
    import beartype
    import typeguard

    from jaxtyping import Float, jaxtyped

    class Cancelled(BaseException):
        pass

    SRC = (
        "async def co(x: Float[N, 'a'], n: int):\n"
        "    LOG.append('start')\n"
        "    try:\n"
        "        r = await Suspend('first')\n"
        "        LOG.append(('got', r))\n"
        "    except Cancelled:\n"
        "        LOG.append('cancelled-once')\n"
        "    try:\n"
        "        r2 = await Suspend('second')\n"
        "        LOG.append(('got2', r2))\n"
        "    finally:\n"
        "        await Suspend('cleanup')\n"
        "        LOG.append('cleaned')\n"
        "    return ('done', n)\n"
    )

    class Suspend:
        def __init__(self, tag):
            self.tag = tag

        def __await__(self):
            got = yield self.tag
            return got

    scripts = {
        "plain-sends": [("send", None), ("send", 1), ("send", 2), ("send", 3)],
        "throw-then-continue": [("send", None), ("throw", Cancelled), ("send", 5), ("send", 6)],
        "throw-twice": [("send", None), ("throw", Cancelled), ("throw", Cancelled), ("send", 7), ("send", 8)],
        "throw-other-then-close": [("send", None), ("throw", KeyError), ("send", 1)],
        "close-while-suspended": [("send", None), ("send", 1), ("close", None)],
    }

    def drive(fn, script, LOG):
        del LOG[:]
        out = []
        try:
            c = fn(real.np_array((2,)), 3)
        except BaseException as e:  # noqa
            return [("call-raised", type(e).__name__)], list(LOG)
        for what, arg in script:
            try:
                if what == "send":
                    out.append(("yielded", c.send(arg)))
                elif what == "throw":
                    out.append(("yielded", c.throw(arg())))
                else:
                    out.append(("closed", c.close()))
            except StopIteration as e:
                out.append(("returned", e.value))
                break
            except BaseException as e:  # noqa
                out.append(("raised", type(e).__name__))
                break
        try:
            c.close()
        except BaseException as e:  # noqa
            out.append(("close-raised", type(e).__name__))
        return out, list(LOG)

    for cname, tc in (("typeguard", typeguard.typechecked), ("beartype", beartype.beartype)):
        LOG = []
        ns = {"Float": Float, "N": np.ndarray, "Suspend": Suspend, "Cancelled": Cancelled, "LOG": LOG}
        real.exec_src(SRC, ns)
        plain = ns["co"]
        deco = jaxtyped(typechecker=tc)(plain)
        for sname, script in scripts.items():
            a = drive(plain, script, LOG)
            b = drive(deco, script, LOG)
            rec.count("coroutine_protocol.scripts")
            rec.case(("coroutine", cname, sname), True)
            if a != b:
                rec.violation("coroutine-protocol", {"checker": cname, "script": sname}, f"decorated coroutine function driven with {sname}: plain {a}, decorated {b}", mechanism="coroutine-" + sname + "-differs")


def arm_how_it_was_called(rec):
    """jaxtyped applied on top of a functools.wraps-style wrapper that can see HOW it was called (jax.jit, a
    deprecation shim testing `name in kwargs`, an lru_cache): positional stays positional, keyword stays keyword,
    an omitted default stays omitted"""
    import functools

    import beartype
    import typeguard

    from jaxtyping import Float, jaxtyped

    for cname, tc in (("typeguard", typeguard.typechecked), ("beartype", beartype.beartype)):
        SEEN = []
        ns = {"Float": Float, "N": np.ndarray}
        real.exec_src("def f(x: Float[N, 'a'], y: int = 2, *rest: int, k: int = 5, **opts: int):\n    return (y, rest, k, tuple(sorted(opts)))\n", ns)
        f = ns["f"]

        @functools.wraps(f)
        def observer(*args, **kwargs):
            SEEN.append((len(args), tuple(sorted(kwargs))))
            return f(*args, **kwargs)

        deco = jaxtyped(typechecker=tc)(observer)
        x = real.np_array((2,))
        calls = {
            "positional-only-x": lambda g: g(x),
            "y-by-keyword": lambda g: g(x, y=3),
            "x-by-keyword": lambda g: g(x=x),
            "k-given": lambda g: g(x, 1, k=9),
            "rest-and-opts": lambda g: g(x, 1, 7, 8, z=1),
            "all-keywords": lambda g: g(y=1, x=x, k=2, w=3),
        }
        for name, c in calls.items():
            del SEEN[:]
            r1 = c(observer)
            s1 = list(SEEN)
            del SEEN[:]
            try:
                r2 = c(deco)
            except Exception as e:  # noqa
                r2 = type(e).__name__
            s2 = list(SEEN)
            rec.count("how_called.calls")
            rec.case(("how-called", cname, name), True)
            if r1 != r2 or s1 != s2:
                rec.violation("how-called", {"checker": cname, "call": name}, f"wrapper that records how it was called, call {name}: plain saw {s1} -> {r1}, decorated saw {s2} -> {r2}", mechanism="wrapped-callee-sees-other-call-shape")


_PROP_SRC = '''
import numpy as np
from jaxtyping import Float, jaxtyped
N = np.ndarray
def getter(self) -> Float[N, "n"]:
    "the original getter's docstring"
    return self.v
def getter_nodoc(self) -> Float[N, "n"]:
    return self.v
def new_getter(self) -> Float[N, "n"]:
    "the replacement getter's docstring"
    return self.v * 2
def new_getter_nodoc(self) -> Float[N, "n"]:
    return self.v * 2
def setter(self, value):
    self.v = value
def deleter(self):
    self.v = None
def variants(make):
    """make(fget) -> the property under test; returns what a program can see of it and of properties derived from it"""
    out = {}
    for gname, g in (("doc", getter), ("nodoc", getter_nodoc)):
        for dname, extra in (("", {}), ("+explicit-doc", {"doc": "explicit doc"})):
            p0 = make(property(g, **extra))
            derived = {"self": p0, "getter(doc)": p0.getter(new_getter), "getter(nodoc)": p0.getter(new_getter_nodoc), "setter": p0.setter(setter), "deleter": p0.deleter(deleter)}
            for k, p in derived.items():
                class Holder:
                    prop = p
                    def __init__(self):
                        self.v = np.ones((2,), dtype="float32")
                h = Holder()
                try:
                    val = float(h.prop.sum())
                except Exception as e:
                    val = type(e).__name__
                can_set = "n/a"
                if k == "setter":
                    try:
                        h.prop = np.zeros((2,), dtype="float32"); can_set = float(h.prop.sum())
                    except Exception as e:
                        can_set = type(e).__name__
                out[f"{gname}{dname}/{k}"] = {"is_property": isinstance(p, property), "doc": p.__doc__, "value": val, "set": can_set, "class_doc_lookup": Holder.__dict__["prop"].__doc__}
    return out
'''


def arm_property_derivation(rec):
    """a decorated property is a property like the plain one: docstring, value - and so are the properties DERIVED from
    it with .getter / .setter / .deleter (the subclass-override idiom `@Base.x.getter`)"""
    import beartype
    import typeguard

    from jaxtyping import jaxtyped

    for cname, tc in (("typeguard", typeguard.typechecked), ("beartype", beartype.beartype)):
        ns = {}
        real.exec_src(_PROP_SRC, ns)
        plain = ns["variants"](lambda p: p)
        deco = ns["variants"](jaxtyped(typechecker=tc))
        for k in plain:
            rec.count("property_derivation.compared")
            rec.case(("property-derivation", cname, k), True)
            if plain[k] != deco[k]:
                rec.violation("metadata", {"checker": cname, "property_variant": k}, f"[{cname}] property {k}: plain {plain[k]}, decorated {deco[k]}", mechanism="decorated-property-or-derived-property-differs")
                return


_MUTATE_SRC = '''
import numpy as np
from jaxtyping import Float, PyTree
N = np.ndarray
CALLS = []
def flatten_(buf: Float[N, "rows cols"]):
    CALLS.append("flatten_")
    buf.shape = (buf.size,)
def extend_(acc: list[Float[N, "n"]], item: Float[N, "n"]):
    CALLS.append("extend_")
    acc.append(np.zeros((item.shape[0] + 1,), dtype="float32"))
    return len(acc)
def retag_(tree: PyTree[Float[N, "k"], "T"], other: PyTree[Float[N, "k"], "T"]):
    CALLS.append("retag_")
    tree["extra"] = np.zeros((1,), dtype="float32")
def cast_(x: Float[N, "a"], out: dict):
    CALLS.append("cast_")
    out["x"] = x
    x.dtype = "int32"
    return out
'''


def arm_bodies_that_change_their_arguments(rec):
    """functions WITHOUT a return annotation whose (well-typed) arguments the body updates in place - in-place reshape,
    appending to a list argument, adding an entry to a dict argument, reinterpreting the dtype: nothing is annotated on
    the way out, so the decorated function returns what the body returned, having run it once"""
    import beartype
    import typeguard

    from jaxtyping import jaxtyped

    def A(*shape):
        return np.zeros(shape, dtype="float32")

    mk_args = {
        "flatten_": lambda: (A(2, 3),),
        "extend_": lambda: ([A(3)], A(3)),
        "retag_": lambda: ({"w": A(2)}, {"w": A(2)}),
        "cast_": lambda: (A(4), {}),
    }
    for cname, tc in (("typeguard", typeguard.typechecked), ("beartype", beartype.beartype)):
        for fname, mk in mk_args.items():
            ns = {}
            real.exec_src(_MUTATE_SRC, ns)
            plain = ns[fname]
            args = mk()
            want = ("ret", repr(plain(*args)), [repr(a)[:80] for a in args])
            ns2 = {}
            real.exec_src(_MUTATE_SRC, ns2)
            deco = jaxtyped(typechecker=tc)(ns2[fname])
            args2 = mk()
            try:
                got = ("ret", repr(deco(*args2)), [repr(a)[:80] for a in args2])
            except BaseException as e:  # noqa
                got = ("exc", type(e).__name__, str(e)[:150])
            rec.count("mutating_bodies.calls")
            rec.case(("mutating-body", cname, fname), True)
            if got != want or ns2["CALLS"] != ns["CALLS"]:
                rec.violation("well-typed-differs", {"checker": cname, "function": fname}, f"[{cname}] {fname} (no return annotation, body updates an argument in place): plain {want}, body ran {ns['CALLS']}; decorated {got}, body ran {ns2['CALLS']}", mechanism="body-that-changes-its-arguments-differs")
                return


def arm_signature_sources(rec):
    """what is checked is the callable's SIGNATURE (inspect.signature follows __wrapped__ and __call__), wherever the
    annotations physically live: a wrapper that only sets __wrapped__, a callable object (equinox Module without
    fields, plain class instance) with an annotated __call__, a functools.partial"""
    import functools

    import beartype
    import equinox as eqx
    import typeguard

    from jaxtyping import Float, TypeCheckError, jaxtyped

    for cname, tc in (("typeguard", typeguard.typechecked), ("beartype", beartype.beartype)):
        LOG = []
        ns = {"Float": Float, "N": np.ndarray, "LOG": LOG, "eqx": eqx}
        real.exec_src(
            "def f(x: Float[N, 'a'], y: Float[N, 'a']):\n    LOG.append('body')\n    return 'ret'\n"
            "class Mod(eqx.Module):\n    def __call__(self, x: Float[N, 'a'], y: Float[N, 'a']):\n        LOG.append('body')\n        return 'ret'\n"
            "class Plain:\n    def __call__(self, x: Float[N, 'a'], y: Float[N, 'a']):\n        LOG.append('body')\n        return 'ret'\n", ns)
        f = ns["f"]

        def only_wrapped(fn):
            def w(*a, **k):
                return fn(*a, **k)

            w.__wrapped__ = fn
            return w

        targets = {"wrapper-that-only-sets-__wrapped__": lambda: only_wrapped(f), "equinox-module-instance-with-annotated-__call__": lambda: ns["Mod"](), "plain-callable-instance": lambda: ns["Plain"](), "functools.partial-of-a-keyword": lambda: functools.partial(f)}
        for tname, mk in targets.items():
            try:
                dec = jaxtyped(typechecker=tc)(mk())
            except Exception as e:  # noqa
                rec.open_corner("decoration-of-" + tname + "-raises-" + type(e).__name__)
                continue
            res = {}
            for iname, (x, y) in {"well": (real.np_array((2,)), real.np_array((2,))), "ill": (real.np_array((2,)), real.np_array((3,)))}.items():
                del LOG[:]
                try:
                    r = dec(x, y)
                    res[iname] = ("ret", r == "ret", len(LOG))
                except Exception as e:  # noqa
                    res[iname] = ("TypeCheckError" if isinstance(e, TypeCheckError) else type(e).__name__, None, len(LOG))
            rec.count("signature_sources.targets")
            rec.case(("signature-source", cname, tname), True)
            if res["well"] != ("ret", True, 1) or res["ill"] != ("TypeCheckError", None, 0):
                rec.violation("signature-source", {"checker": cname, "target": tname}, f"jaxtyped({cname}) over a {tname}: well-typed call {res['well']}, ill-typed call {res['ill']} (expected ('ret', True, 1) and ('TypeCheckError', None, 0))", mechanism="signature-source-" + tname + "-unchecked")


def arm_factories(rec):
    """one `def` executed several times (a factory) gives sibling functions with their own defaults: `{param}`
    axes of each sibling are evaluated against ITS defaults"""
    import beartype
    import typeguard

    from jaxtyping import Float, jaxtyped

    for cname, tc in (("typeguard", typeguard.typechecked), ("beartype", beartype.beartype)):
        # (the annotation is a module-level alias, as annotations usually are: the siblings share the very same object)
        ns = {"Float": Float, "N": np.ndarray, "jaxtyped": jaxtyped, "tc": tc, "X": Float[np.ndarray, "{d}"]}
        real.exec_src("def make(k):\n    @jaxtyped(typechecker=tc)\n    def head(x: X, d=k, *, scale: 'int' = k):\n        return d\n    return head\n", ns)
        heads = {k: ns["make"](k) for k in (4, 8, 2)}
        for k, h in heads.items():
            for size in (2, 4, 8):
                try:
                    h(real.np_array((size,)))
                    got = "ok"
                except Exception as e:  # noqa
                    got = type(e).__name__
                rec.count("factory.calls")
                rec.case(("factory", cname, k, size), True)
                want = "ok" if size == k else "TypeCheckError"
                if got != want:
                    rec.violation("factory-defaults", {"checker": cname, "default": k, "size": size}, f"sibling made by make({k}) called with an array of size {size} (siblings with defaults 4, 8, 2 exist): {got}, expected {want}", mechanism="sibling-function-uses-other-siblings-defaults")
            try:
                r = h(real.np_array((3,)), 3)
            except Exception as e:  # noqa
                r = type(e).__name__
            if r != 3:
                rec.violation("factory-defaults", {"checker": cname, "default": k, "explicit": 3}, f"sibling made by make({k}) called with d=3 explicitly: {r}", mechanism="sibling-function-explicit-argument")


def run_shard(rec, seed, shard, tier):
    warnings.filterwarnings("ignore")
    if shard["i"] % 8 == 0:
        arm_classes(rec)
        arm_joint_typechecker(rec)
        arm_coroutine_protocol(rec)
        arm_how_it_was_called(rec)
        arm_factories(rec)
        arm_signature_sources(rec)
        real.error_formatting_probe(rec, "C07")
        arm_property_derivation(rec)
        arm_bodies_that_change_their_arguments(rec)
    for k in range(CASES[tier]):
        key = f"{seed}/C07/{shard['i']}/{k}"
        run_case(rec, random.Random(key), rngkey=key)
    rec.sample({"signature_example": "def target(T0, ret0=_jtv_D1, /, x: _jtv_T2 = _jtv_D2, *args: _jtv_T3, kwargs, **memos)", "hostile_names": HOSTILE[:12]})


def replay(rec, case):
    warnings.filterwarnings("ignore")
    run_case(rec, random.Random(case["rngkey"]), rngkey=case["rngkey"])

"""C08 — PyTree[L] accepts exactly the trees all of whose leaves match L."""

from __future__ import annotations

import random
import warnings

import numpy as np

from .. import real
from ..gen import annotations as G
from ..gen import trees as GT
from ..model import dims as M
from ..model import leaftypes as LT
from ..model import trees as TM

LEVEL = "exploration"
TECHNIQUE = "runtime monitoring: pure-Python tree/leaf reference model decides verdict and bindings of isinstance(tree, PyTree[L]) under generated prior contexts; metamorphic laws PyTree[L]==PyTree[PyTree[L]], bare PyTree, top-level None; leaf types incl. array types that are PyTree nodes, structured PyTrees (structure names tracked by the model) and NamedTuple classes; identity arm (mutated / temporary trees); annotations built while checking was off; two shards run the whole comparison in a python -O / -OO interpreter"
LEVEL_TEXT = (
    "Held on every generated (prior context, leaf type, tree) explored: trees to depth 4 over tuple/list/dict/None/"
    "namedtuple/registered node/empty containers, 13 leaf types incl. unions, X|Y, tuples of arrays. Sampling, not proof."
)
LEVEL_NOTE = "Trusts jtv/model/trees.py + leaftypes.py (written without jax.tree_util) and the dims model for array leaves."
RULE = (
    "one case = (prior bindings, leaf type L, tree, law variant); leaves are generated to match L and then perturbed "
    "(wrong type, wrong arity, k-th array leaf mismatching bindings made by earlier leaves); non-trivial = tree has >=2 "
    "leaves or a sub-object that is itself an L; distinct by (state, L, tree description)."
)
ASSUMPTIONS = ["leaf discovery treats a sub-object as a leaf when it matches L with array annotations reduced to the array type (anchors of C08)"]
CASES = {"quick": 5000, "thorough": 60000}
NSHARDS = 16

ARR = lambda spec, cat="Float": ("arr", cat, spec)
CATALOGUE = [
    ("int",),
    ("str",),
    ("tuple", [("int",), ("int",)]),
    ("union", [("int",), ("str",)]),
    ("pep604", [("int",), ("str",)]),
    ("optional", ("int",)),
    ("any",),
    ARR("a"),
    ARR("*v a"),
    ARR("a b"),
    ("tuple", [ARR("a"), ARR("b")]),
    ("union", [ARR("a b"), ARR("a", "Int")]),
    ("union", [("int",), ARR("#a *v")]),
    ("tuple", [("int",), ARR("a")]),
    # first alternative binds an axis and then fails on a later one; the second passes: nothing of the first may stay
    ("union", [ARR("a 3"), ARR("b 4")]),
    ("optional", ARR("a 3")),
    # broadcastable variadics: an earlier leaf may WIDEN an existing binding (no new key), a later leaf fails
    ARR("*#v a"),
    ARR("*#v"),
    ("tuple", [ARR("*#v"), ARR("#a")]),
    # a tuple that is an L by type but not by shape must stay a (failing) leaf, not be descended into
    ("union", [("tuple", [ARR("2"), ARR("3")]), ARR("...")]),
    # array types that are themselves PyTree nodes: "any subtree that itself matches L counts as a leaf"
    ("arrnode", "Float", "a"),
    ("arrnode", "Shaped", "*v a"),
    ("union", [("arrnode", "Float", "a b"), ARR("a")]),
    ("tuple", [("arrnode", "Float", "a"), ("int",)]),
    # a STRUCTURED PyTree inside the leaf type (its values are always 2-tuples, so the name means one structure):
    # trying non-leaf nodes against it while flattening must not leave the name bound to their structure
    ("tuple", [("spytree", ARR("a"), "C", 2), ARR("b")]),
    ("tuple", [("spytree", ("int",), "C", 2), ("str",)]),
    # the leaf type IS a structured PyTree: PyTree[PyTree[int, 'C']] - with 'C' unbound the whole value is one leaf (and
    # binds C); with 'C' bound EARLIER in the context only pieces of that structure are leaves
    ("spytree", ("int",), "C", 2),
    ("spytree", ARR("a"), "C", 2),
    # TypeVars as leaf types stand for their bound / the union of their constraints (plain classes only: the vendored
    # typechecker compares classes there); a literal None slot inside a generic
    ("typevar", "bound", [("int",)]),
    ("typevar", "constr", [("int",), ("str",)]),
    ("tuple", [("int",), ("none",)]),
    # an UNSTRUCTURED PyTree as one alternative / component of the leaf type: the other alternatives still count
    ("union", [("pytree", ARR("a")), ("int",), ("str",)]),
    ("tuple", [("pytree", ARR("a")), ("pytree", ("int",))]),
    ("union", [("pytree", ("str",)), ("int",)]),
    # a NamedTuple CLASS as leaf type: its field annotations are part of the type
    ("ntclass", [ARR("a"), ARR("a")]),
    ("ntclass", [ARR("a b"), ARR("b", "Int")]),
    ("union", [("ntclass", [("int",), ARR("*v")]), ARR("a")]),
]


def shards(tier):
    # shards 2 and 10 run in an interpreter started with -O / -OO (asserts stripped, __debug__ False): an explicit
    # isinstance(x, PyTree[L]) means the same there
    return [dict({"i": i}, **({"python_flags": [{2: "-O", 10: "-OO"}[i]]} if i in (2, 10) else {})) for i in range(NSHARDS)]


def required_counters(tier):
    return {
        "verdict.ok": 500,
        "verdict.no": 500,
        "trees.ge4_leaves": 300,
        "fail.kth_leaf_gt1": 100,
        "leaf.subtuple_is_L": 100,
        "toplevel_none": 30,
        "law.nested": 500,
        "law.bare": 500,
        "bindings_compared": 1000,
        "L.pep604": 50, "L.arrnode": 100, "L.ntclass": 100, "structure_name_bound_earlier": 100, "annotation_built_while_checking_disabled": 100, "hostile_values": 16, "identity_cases": 16, "shards_under_python_O": 2, "near_recursion_limit.checks": 300, "near_recursion_limit.died_with_RecursionError": 20, "cases_under_python_O": 1000,
    }


def leaf_gen(L, single, variadic):
    """-> function rng -> leaf value, mostly matching L"""
    st = {"s": dict(single), "v": dict(variadic)}

    def arr_for(rng, spec, cat="Float", p_bad=0.12):
        toks = M.parse(spec)
        sh = G.gen_shape_for(rng, toks, st["s"], st["v"], {}, p_perturb=p_bad, max_rank=4)
        vd, why, s2, v2 = M.match(toks, sh, st["s"], st["v"], {})
        if vd == "ok":
            st["s"], st["v"] = s2, v2
        dt = "float32" if cat == "Float" else "int32"
        if rng.random() < 0.04:
            dt = "int32" if dt == "float32" else "float32"
        return real.np_array(sh, dt)

    def mk(rng, L=L):
        k = L[0]
        r = rng.random()
        if r < 0.10:
            return rng.choice((1.5, "s", 3, None, (1, 2), (1, "x"), (1, 2, 3), GT.Point(1, 2), real.np_array((2,)), b"b", LT.NodeArr(real.np_array((2,)), 0)))
        if k == "int":
            return rng.choice((0, 1, 7, True))
        if k == "str":
            return rng.choice(("", "x", "yz"))
        if k == "any":
            return rng.choice((1, "s", 2.5, real.np_array((2, 2))))
        if k == "none":
            return None
        if k == "tuple":
            return tuple(mk(rng, x) for x in L[1])
        if k in ("union", "pep604"):
            return mk(rng, rng.choice(L[1]))
        if k == "optional":
            return None if rng.random() < 0.3 else mk(rng, L[1])
        if k == "arr":
            return arr_for(rng, L[2], L[1])
        if k == "typevar":
            return mk(rng, rng.choice(L[2]))
        if k == "pytree":
            n = rng.choice((0, 1, 2, 3))
            kids = [mk(rng, L[1]) for _ in range(n)]
            return rng.choice((list, tuple))(kids) if n != 1 or rng.random() < 0.5 else kids[0]
        if k == "ntclass":
            return LT.nt_class(L)(*[mk(rng, x) for x in L[1]])
        if k == "spytree":
            return tuple(mk(rng, L[1]) for _ in range(L[3]))
        if k == "arrnode":
            return LT.NodeArr(arr_for(rng, L[2], L[1]), rng.choice((0, 1)))
        raise AssertionError(L)

    return mk


def build_state(rng):
    single, variadic = {}, {}
    done = []
    for _ in range(rng.choice((0, 0, 1, 2))):
        spec = rng.choice(("a", "a b", "*v", "b *v", "#a", "*#v", "*#v", "#a *#v"))
        toks = M.parse(spec)
        shape = G.gen_shape_for(rng, toks, single, variadic, {}, p_perturb=0.0, max_rank=3)
        vd, why, s1, v1 = M.match(toks, shape, single, variadic, {})
        if vd != "ok":
            continue
        import jaxtyping

        if real.check(real.np_array(shape), jaxtyping.Float[np.ndarray, spec]) != "ok":
            continue
        single, variadic = s1, v1
        done.append([spec, list(shape)])
    return single, variadic, done


def model_pytree(x, L, s, v):
    """-> (verdict, s', v', nleaves, kfail)"""
    if x is None:
        return "ok", s, v, 0, None
    if L[0] == "any":
        return "ok", s, v, len(TM.leaves(x)), None
    isl = lambda y: LT.matches(y, L, LT.structs_only(s), {}, True)[0]
    lv = TM.leaves(x, isl)
    s1, v1 = s, v
    for i, leaf in enumerate(lv):
        ok, s1, v1 = LT.matches(leaf, L, s1, v1, False)
        if not ok:
            return "no", s, v, len(lv), i
    return "ok", s1, v1, len(lv), None


def run_case(rec, rng, rngkey=None):
    import jaxtyping

    L = rng.choice(CATALOGUE)
    has_arr = LT.has_array(L)
    r = rng.random()
    window = rng.random() < 0.1
    if window:
        rec.count("annotation_built_while_checking_disabled")

    def body(variant):
        """variant: 'plain' | 'nested' ; returns (got, bindings)"""
        rr = random.Random(rngkey + "/tree")
        single, variadic, state = build_state(rr) if has_arr else ({}, {}, [])
        if "'spytree'" in repr(L) and rr.random() < 0.5:
            # the structure name used inside the leaf type has been bound EARLIER in this context (to a pair)
            import typing

            if real.check((0, 0), jaxtyping.PyTree[typing.Any, "C"]) == "ok":
                single = dict(single)
                single[LT.STRUCT_KEY + "C"] = TM.struct((0, 0))
                state = list(state) + [["structure C bound earlier", "(*, *)"]]
                if variant == "plain":
                    rec.count("structure_name_bound_earlier")
        mk = leaf_gen(L, single, variadic)
        top = rr.random()
        if top < 0.04:
            x = None
        elif top < 0.12:
            x = mk(rr)
        else:
            x = GT.gen_tree(rr, mk, depth=rr.choice((1, 2, 3, 4)), fanout=3, p_leaf=0.3)
        T = LT.build(L)
        if window:
            # the annotation is BUILT while checking is switched off (and used after it is on again)
            jaxtyping.config.update("jaxtyping_disable", True)
        try:
            ann = jaxtyping.PyTree[T] if variant == "plain" else jaxtyping.PyTree[jaxtyping.PyTree[T]]
        finally:
            if window:
                jaxtyping.config.update("jaxtyping_disable", False)
        got = real.check(x, ann)
        b = real.bindings()
        bare = real.check(x, jaxtyping.PyTree)
        return got, b, bare, x, single, variadic, state

    got, b, bare, x, single, variadic, state = real.in_block_context(lambda: body("plain"))
    desc = {"L": LT.show(L), "state": state, "tree": GT.describe(x), "rngkey": rngkey}
    try:
        mv, ms, mvv, nleaves, kfail = model_pytree(x, L, single, variadic)
    except (LT.Open, LT.Annot):
        rec.open_corner("leaf-raises")
        return
    isl = (lambda y: LT.matches(y, L, {}, {}, True)[0]) if L[0] != "any" else None
    subtuple = any(isinstance(l, tuple) for l in TM.leaves(x, isl)) if x is not None else False
    rec.case((desc["L"], state, desc["tree"]), nontrivial=nleaves >= 2 or subtuple)
    rec.count("verdict." + (got if got in ("ok", "no") else "other"))
    rec.count("L." + L[0])
    if nleaves >= 4:
        rec.count("trees.ge4_leaves")
    if kfail:
        rec.count("fail.kth_leaf_gt1")
    if subtuple:
        rec.count("leaf.subtuple_is_L")
    if x is None:
        rec.count("toplevel_none")
    if got != mv:
        mech = f"pytree-{'accepts' if got == 'ok' else 'rejects' if got == 'no' else got}-{L[0]}"
        if x is None:
            mech = "toplevel-none-" + got
        rec.violation("verdict", desc, f"PyTree[{desc['L']}] on {desc['tree']}: model {mv} (leaf #{kfail} fails) real {got}", mechanism=mech)
        return
    rs, rv, rt = b
    ms, mstructs = LT.split_structs(ms)
    es, ev = M.transcript(ms, mvv)
    rec.count("bindings_compared")
    if rs != es or rv != ev or sorted(rt) != sorted(mstructs):
        rec.violation("bindings", desc, f"after verdict {got}: model bindings {es},{ev}; real {rs},{rv},{rt}", mechanism="bindings-after-" + got)
        return
    rec.count("law.bare")
    if bare != "ok":
        rec.violation("law-bare", desc, f"bare PyTree answered {bare}", mechanism="bare-pytree-rejects")
    # law: PyTree[L] == PyTree[PyTree[L]] in a twin context
    got2, b2, *_ = real.in_block_context(lambda: body("nested"))
    rec.count("law.nested")
    if got2 != got or b2 != b:
        rec.violation("law-nested", desc, f"PyTree[L] -> {got},{b} but PyTree[PyTree[L]] -> {got2},{b2}", mechanism="nested-pytree-differs")


class _RaisingNode:
    def __init__(self, children):
        self.children = children


_hostile_registered = False


def hostile_values():
    """values jax cannot flatten: bare PyTree must still accept them, and a PyTree[L] check on them
    (whatever it answers or raises) must not leave anything behind"""
    global _hostile_registered
    import jax.tree_util as jtu

    if not _hostile_registered:
        def fl(n):
            raise RuntimeError("this node cannot be flattened")

        jtu.register_pytree_node(_RaisingNode, fl, lambda a, c: _RaisingNode(c))
        _hostile_registered = True
    return [{1: 0, "one": 0}, [1, {2: (3,), "k": 4}], _RaisingNode([1, 2]), (real.np_array((2,)), _RaisingNode([]))]


def run_hostile(rec):
    import jaxtyping

    for idx, x in enumerate(hostile_values()):
        desc = {"hostile": idx, "value": repr(x)[:80]}
        rec.case(("hostile", idx), True)
        rec.count("hostile_values")
        bare = real.in_block_context(lambda: real.check(x, jaxtyping.PyTree))
        if bare != "ok":
            rec.violation("law-bare", desc, f"bare PyTree on {desc['value']}: {bare} (bare PyTree accepts everything)", mechanism="bare-pytree-" + bare.replace(":", "-"))
        for L in (ARR("a"), ("int",), ("tuple", [ARR("a"), ARR("b")])):
            T = LT.build(L)
            real.in_block_context(lambda: real.check(x, jaxtyping.PyTree[T]))
            # whatever that answered: afterwards a wrong-dtype / wrong-shape leaf must still be rejected
            after = real.in_block_context(lambda: (real.check([real.np_array((2, 3), "int32")], jaxtyping.PyTree[jaxtyping.Float[np.ndarray, "a"]]), real.check(real.np_array((2, 3)), jaxtyping.Float[np.ndarray, "4"]), real.raw_transcript()))
            if after != ("no", "no", "\n"):
                rec.violation("after-unflattenable", desc, f"after checking an unflattenable value against PyTree[{LT.show(L)}], later checks answer {after} instead of ('no','no','')", mechanism="state-left-behind-by-raising-flatten")
                return


def run_identity(rec, rng):
    """a verdict belongs to the VALUE at the time of the check, not to the object: a tree that was accepted
    and is then changed in place must be judged again; temporaries (whose id() gets reused) likewise"""
    import jaxtyping

    F = jaxtyping.Float[np.ndarray, "n"]
    for ann, good, bad in (
        (jaxtyping.PyTree[F], lambda: real.np_array((3,)), lambda: real.np_array((3,), "int32")),
        (jaxtyping.PyTree[F, "T"], lambda: real.np_array((3,)), lambda: real.np_array((4,))),
        (jaxtyping.PyTree[int], lambda: 1, lambda: "s"),
    ):
        def body():
            tree = [good(), good()]
            r = [real.check(tree, ann)]
            tree.append(bad())  # same object, new content
            r.append(real.check(tree, ann))
            tree.pop()
            r.append(real.check(tree, ann))
            d = {"k": good()}
            r.append(real.check(d, ann))
            d["k"] = bad()
            r.append(real.check(d, ann))
            for make in (good, bad, bad, good):  # temporaries: freed after each check
                r.append(real.check([make()], ann))
            return r

        got = real.in_block_context(body)
        rec.count("identity_cases")
        rec.case(("identity", getattr(ann, "__name__", "?")), True)
        want = ["ok", "no", "ok", "ok", "no", "ok", "no", "no", "ok"]
        if ann.structure:  # a structure name is bound by the first accepted tree: later trees must have that structure
            want = ["ok", "no", "ok", "no", "no", "no", "no", "no", "no"]
        if got != want:
            rec.violation("identity", {"annotation": getattr(ann, "__name__", "?")}, f"mutated / temporary trees: verdicts {got}, expected {want}", mechanism="verdict-remembered-per-object")


def run_shard(rec, seed, shard, tier):
    warnings.filterwarnings("ignore")
    if shard.get("i", 1) % 2 == 1:
        real.hostile_prelude(rec)  # a past: nothing the check decides may depend on it
        real.toplevel_probes(rec, None, "after the hostile prelude")
    GT.ensure_registered()
    if shard["i"] == 5:
        from .depth_common import arm_checks_near_recursion_limit

        arm_checks_near_recursion_limit(rec, ["pytree/"])
    run_identity(rec, random.Random(f"{seed}/C08/{shard['i']}/identity"))
    if shard.get("python_flags"):
        rec.count("shards_under_python_O")
        if __debug__:
            rec.inconclusive.append(f"shard {shard} was meant to run under {shard['python_flags']} but __debug__ is True")
    for k in range(CASES[tier]):
        key = f"{seed}/C08/{shard['i']}/{k}"
        run_case(rec, random.Random(key), rngkey=key)
        if shard.get("python_flags"):
            rec.count("cases_under_python_O")
        if k % 1000 == 500:
            run_hostile(rec)
    rec.sample({"catalogue": [LT.show(L) for L in CATALOGUE]})


def replay(rec, case):
    warnings.filterwarnings("ignore")
    GT.ensure_registered()
    run_case(rec, random.Random(case["rngkey"]), rngkey=case["rngkey"])

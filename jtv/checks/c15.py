"""C15 — nested, union, TypeVar and scalar annotations obey the documented laws."""

from __future__ import annotations

import json
import os
import random
import typing
import warnings

import numpy as np

from .. import probe, real
from ..model import dims as M
from ..model import dtypes as DT

LEVEL = "exploration"
TECHNIQUE = "runtime monitoring: both sides of each documented law are built and their acceptance vectors (isinstance verdict + bindings over a probe set of NumPy/JAX arrays, keys, scalars, duck objects) compared; construction errors compared with the stated conditions; category intersection computed by the independent dtype oracle; absolute 'any array-like' law (TensorFlow, list / sequence / tuple-subclass shapes); PRNGKeyArray in fresh processes under every PRNG implementation; user categories defined by a regular expression nested with string categories; parameterised generic array types (NDArray[...], Generic[T] classes) directly, in unions and as TypeVar bounds / constraints"
LEVEL_TEXT = (
    "Thorough tier enumerates all 34x34 category pairs x 8x8 dim-string pairs for the nesting law (exhaustive for these "
    "lists); quick tier takes a seeded sample of them. Union/TypeVar/scalar/alias laws are enumerated over all categories in both tiers."
)
LEVEL_NOTE = "Equality of accepted sets is approximated by equality of acceptance vectors over the probe set; the dtype oracle supplies intersections."
RULE = (
    "one case = one law instance (nesting: category pair x dim-string pair x array type; union: category x member list; "
    "TypeVar; scalar ladder: category x scalar type x dim string; aliases); non-trivial = every instance whose two sides "
    "both build, or whose error condition is decided; distinct by the instance."
)
ASSUMPTIONS = ["precision-specific classes x Python scalars (Float32[float, ''] accepted by prefix match) are not judged"]
NSHARDS = 16
DIMS = ["", "a", "a b", "*v", "... 3", "#a 2", "_ *v a", "2 3"]
NEST_FRACTION = {"quick": 0.3, "thorough": 1.0}


def shards(tier):
    return [{"i": i} for i in range(NSHARDS)]


def required_counters(tier):
    return {
        "nest.compared": 1500,
        "nest.empty_intersection": 300,
        "nest.both_variadic": 100,
        "union.compared": 100, "generic_array_types.compared": 50,
        "typevar.compared": 30,
        "scalar.kept": 20,
        "scalar.dropped": 50,
        "aliases.compared": 3, "union.of_nested_compared": 30, "any.arraylike_compared": 500, "any.same_class_with_and_without_attributes": 4, "any.tf_values": 4, "prng_impl.processes": 6,
    }


_UNIVERSE = None


def universe():
    """canonical dtype names (+ the scalar-type names NumPy/JAX report) with their oracle kind"""
    global _UNIVERSE
    if _UNIVERSE is None:
        import ml_dtypes

        u = {}
        for t in set(np.sctypeDict.values()):
            try:
                d = np.dtype(t)
            except Exception:
                continue
            k = DT.kind_of(d)
            if k in ("bool", "int", "uint", "float", "complex"):
                u[d.name] = (k, d.name)
                u[d.type.__name__] = (k, d.name)
        for n in dir(ml_dtypes):
            t = getattr(ml_dtypes, n)
            if isinstance(t, type) and issubclass(t, np.generic):
                d = np.dtype(t)
                u[d.name] = (DT.kind_of(d), d.name)
        u["prng_key"] = ("key", "prng_key")
        _UNIVERSE = u
    return _UNIVERSE


def names_of(cat):
    return sorted(n for n, (k, canon) in universe().items() if DT.expected(cat, k, canon))


_VALUES = None


def values():
    global _VALUES
    if _VALUES is None:
        import jax
        import ml_dtypes

        v = []
        for dt in ("bool", "int8", "int32", "uint8", "float16", "float32", "float64", "complex64"):
            for sh in ((), (2,), (2, 3), (3, 2, 3), (1, 2), (2, 2, 3)):
                v.append(real.np_array(sh, dt))
        for dt in (ml_dtypes.bfloat16, ml_dtypes.float8_e4m3fn, ml_dtypes.int4):
            for sh in ((), (2, 3)):
                v.append(np.zeros(sh, dtype=dt))
        for dt in ("bool", "int32", "float32", "bfloat16"):
            for sh in ((), (2,), (2, 3), (3, 2, 3)):
                v.append(jax.device_put(np.zeros(sh, dtype=dt)))
        v += [jax.random.key(0), jax.random.split(jax.random.key(0), 2), jax.random.PRNGKey(0)]
        v += [True, 1, 1.5, 1j, np.float32(1), np.int64(2), np.bool_(True), "s", None, real.Duck((2, 3), "float32"), real.Duck((), "int8")]
        _VALUES = v
    return _VALUES


PRI = [[], [("a", (2,))]]


def accept_vec(ann):
    """ann: a class, or a typing.Union of classes / plain types"""
    alts = typing.get_args(ann) if typing.get_origin(ann) is typing.Union else (ann,)
    out = []
    for prior in PRI:
        for x in values():

            def body():
                probe._prep(prior)
                for alt in alts:
                    got = real.check(x, alt)
                    if got == "ok":
                        return got, real.raw_transcript()
                    if got != "no":
                        return got, None
                return "no", None

            out.append(real.in_block_context(body))
    return tuple(out)


def build(f):
    try:
        return "ok", f()
    except ValueError:
        return "valueerror", None
    except Exception as e:  # noqa
        return "exc:" + type(e).__name__, None


def first_diff(v1, v2):
    i = next(i for i, (a, b) in enumerate(zip(v1, v2)) if a != b)
    vals = values()
    return f"probe #{i} ({probe.describe_value(vals[i % len(vals)])}, prior {PRI[i // len(vals)]}): {v1[i]} vs {v2[i]}"


def law_nesting(rec, d1, d2, s1, s2, A, aname):
    import jaxtyping

    D1, D2 = getattr(jaxtyping, d1), getattr(jaxtyping, d2)
    n1, n2 = names_of(d1), names_of(d2)
    any1, any2 = d1 == "Shaped", d2 == "Shaped"
    inter = None if (any1 and any2) else (n2 if any1 else n1 if any2 else sorted(set(n1) & set(n2)))
    both_var = any(M.is_variadic(t) for t in M.parse(s1)) and any(M.is_variadic(t) for t in M.parse(s2))
    inst = ("nest", d1, d2, s1, s2, aname)
    g_in, inner = build(lambda: D1[A, s1])
    if g_in != "ok":
        rec.violation("nesting", {"law": inst}, f"inner {d1}[{aname}, {s1!r}] failed to build: {g_in}", mechanism="inner-build-" + g_in)
        return
    g, nested = build(lambda: D2[inner, s2])
    rec.case(inst, nontrivial=True)
    expect_err = (inter is not None and len(inter) == 0) or both_var
    if inter is not None and len(inter) == 0:
        rec.count("nest.empty_intersection")
    if both_var:
        rec.count("nest.both_variadic")
    if expect_err:
        if g != "valueerror":
            rec.violation("nesting", {"law": inst}, f"{d2}[{d1}[{aname},{s1!r}],{s2!r}] must be a ValueError ({'empty dtype intersection' if not both_var else 'two variadics'}), got {g}", mechanism="nest-error-expected-got-" + g)
        return
    if g != "ok":
        rec.violation("nesting", {"law": inst}, f"{d2}[{d1}[{aname},{s1!r}],{s2!r}] failed to build: {g}", mechanism="nest-build-" + g)
        return
    if inter is None:
        I = jaxtyping.Shaped
    else:
        I = type("I", (jaxtyping.AbstractDtype,), {"dtypes": list(inter)})
    g2, flat = build(lambda: I[A, (s2 + " " + s1).strip()])
    if g2 != "ok":
        rec.inconclusive.append(f"flat side failed to build for {inst}: {g2}")
        return
    v1, v2 = accept_vec(nested), accept_vec(flat)
    rec.count("nest.compared")
    if v1 != v2:
        rec.violation("nesting", {"law": inst}, f"{d2}[{d1}[{aname},{s1!r}],{s2!r}] != ({d1}&{d2})[{aname},{(s2 + ' ' + s1).strip()!r}]: {first_diff(v1, v2)}", mechanism="nest-accepts-differently")


SCALAR_IN = {
    bool: {"Bool", "Shaped"},
    int: {"Int", "Integer", "Real", "Num", "Shaped"},
    float: {"Float", "Inexact", "Real", "Num", "Shaped"},
    complex: {"Complex", "Inexact", "Num", "Shaped"},
}


def law_scalars(rec):
    import jaxtyping

    for cname in DT.ALL_CATEGORIES:
        C = getattr(jaxtyping, cname)
        for t in (bool, int, float, complex):
            for s in ("", "...", "*v", "*#v", "a", "2", "*v a", "... 3", "_"):
                inst = ("scalar", cname, t.__name__, s)
                all_var = all(M.is_variadic(tok) for tok in M.parse(s))
                broad = cname in DT.HIER
                if not broad:
                    rec.open_corner("precision-class-x-python-scalar")
                    g, ann = build(lambda: C[t, s])
                    if g.startswith("exc:"):
                        rec.violation("scalar", {"law": inst}, f"{cname}[{t.__name__},{s!r}] raised {g}", mechanism="scalar-build-" + g)
                    continue
                keep = all_var and cname in SCALAR_IN[t]
                g, ann = build(lambda: C[t, s])
                rec.case(inst, True)
                if keep:
                    rec.count("scalar.kept")
                    if g != "ok" or ann is not t:
                        rec.violation("scalar", {"law": inst}, f"{cname}[{t.__name__},{s!r}] should be {t.__name__} itself, got {g} {ann!r}", mechanism="scalar-not-kept")
                else:
                    rec.count("scalar.dropped")
                    if g != "valueerror":
                        rec.violation("scalar", {"law": inst}, f"{cname}[{t.__name__},{s!r}] should be a ValueError (alone), got {g} {ann!r}", mechanism="scalar-not-rejected-" + g)
                    # inside a union the member is dropped
                    g2, u = build(lambda: C[typing.Union[np.ndarray, t], s])
                    if g2 != "ok" or u is None or typing.get_origin(u) is typing.Union:
                        rec.violation("scalar", {"law": inst}, f"{cname}[Union[ndarray,{t.__name__}],{s!r}]: the scalar member should be dropped, got {g2} {u!r}", mechanism="scalar-not-dropped-from-union")
                if keep:
                    g2, u = build(lambda: C[typing.Union[np.ndarray, t], s])
                    if g2 != "ok" or t not in typing.get_args(u):
                        rec.violation("scalar", {"law": inst}, f"{cname}[Union[ndarray,{t.__name__}],{s!r}]: scalar member should survive, got {g2} {u!r}", mechanism="scalar-lost-from-union")


def law_unions(rec):
    import jax

    import jaxtyping

    members = [
        (np.ndarray, jax.Array),
        (np.ndarray, real.Duck),
        (jax.Array, np.ndarray, real.Duck),
        (np.ndarray, float),
        (np.ndarray, int, bool),
        (jax.Array, complex),
    ]
    for cname in ("Float", "Int", "Shaped", "Bool", "Num", "Float32", "Key", "UInt8", "Inexact", "Integer"):
        C = getattr(jaxtyping, cname)
        for ms in members:
            for s in ("", "a", "*v", "... 2", "a b"):
                for spelling in ("Union", "pep604"):
                    inst = ("union", cname, [m.__name__ for m in ms], s, spelling)
                    if spelling == "Union":
                        U = typing.Union[ms]
                    else:
                        U = ms[0]
                        for m in ms[1:]:
                            U = U | m
                    g, lhs = build(lambda: C[U, s])
                    parts = []
                    for m in ms:
                        gm, am = build(lambda: C[m, s])
                        if gm == "ok":
                            parts.append(am)
                        elif gm != "valueerror":
                            rec.violation("union", {"law": inst}, f"{cname}[{m.__name__},{s!r}] raised {gm}", mechanism="union-member-" + gm)
                    rec.case(inst, True)
                    if not parts:
                        if g != "valueerror":
                            rec.violation("union", {"law": inst}, f"no member survives, expected ValueError, got {g}", mechanism="union-empty-" + g)
                        continue
                    if g != "ok":
                        rec.violation("union", {"law": inst}, f"{cname}[Union{[m.__name__ for m in ms]},{s!r}] failed to build: {g}", mechanism="union-build-" + g)
                        continue
                    rhs = typing.Union[tuple(parts)] if len(parts) > 1 else parts[0]
                    v1, v2 = accept_vec(lhs), accept_vec(rhs)
                    rec.count("union.compared")
                    if v1 != v2:
                        rec.violation("union", {"law": inst}, f"D[Union[...],s] != Union[D[A,s],...]: {first_diff(v1, v2)}", mechanism="union-accepts-differently")


def law_union_of_nested(rec):
    """D[Union[D1[A,s1], D2[A,s1]], s2]  ==  Union[(D&D1)[A,'s2 s1'], (D&D2)[A,'s2 s1']]  (flat classes on the right)"""
    import jaxtyping

    N = np.ndarray
    for d in ("Shaped", "Num", "Real", "Inexact"):
        for d1, d2 in (("Float", "Int"), ("Float32", "Float64"), ("Bool", "UInt8"), ("Complex", "Float"), ("Int8", "Int")):
            for s1, s2 in (("a", "b"), ("a", ""), ("*v", "2"), ("a b", "...")):
                inst = ("union-of-nested", d, d1, d2, s1, s2)
                D, D1, D2 = (getattr(jaxtyping, x) for x in (d, d1, d2))
                rec.case(inst, True)
                parts = []
                for di in (d1, d2):
                    inter = names_of(di) if d == "Shaped" else sorted(set(names_of(d)) & set(names_of(di)))
                    if inter:
                        I = type("I", (jaxtyping.AbstractDtype,), {"dtypes": list(inter)})
                        parts.append(I[N, (s2 + " " + s1).strip()])
                g, lhs = build(lambda: D[typing.Union[D1[N, s1], D2[N, s1]], s2])
                if not parts:
                    continue  # both members have an empty intersection: error behaviour is the nesting law's business
                if len(parts) < 2:
                    rec.open_corner("union-member-with-empty-intersection")
                    continue
                if g != "ok":
                    rec.violation("union", {"law": inst}, f"{d}[Union[{d1}[N,{s1!r}], {d2}[N,{s1!r}]], {s2!r}] failed to build: {g}", mechanism="union-of-nested-build-" + g)
                    continue
                rhs = typing.Union[tuple(parts)]
                v1, v2 = accept_vec(lhs), accept_vec(rhs)
                rec.count("union.of_nested_compared")
                if v1 != v2:
                    rec.violation("union", {"law": inst}, f"{d}[Union[{d1}[..], {d2}[..]], {s2!r}] differs from the union of the flat intersections: {first_diff(v1, v2)}", mechanism="union-of-nested-accepts-differently")
    # a TypeVar constrained to two nested annotations, and re-nesting of siblings built one after the other
    F1, F2 = jaxtyping.Float[N, "a"], jaxtyping.Int[N, "a"]
    tv = typing.TypeVar("TN", F1, F2)
    g, lhs = build(lambda: jaxtyping.Shaped[tv, "b"])
    rhs = typing.Union[jaxtyping.Float[N, "b a"], jaxtyping.Int[N, "b a"]]
    if g != "ok" or accept_vec(lhs) != accept_vec(rhs):
        rec.violation("typevar", {"law": ["union-of-nested", "typevar"]}, "Shaped[TypeVar(Float[N,'a'], Int[N,'a']), 'b'] differs from Union[Float[N,'b a'], Int[N,'b a']]", mechanism="typevar-of-nested-accepts-differently")
    a3 = jaxtyping.Shaped[jaxtyping.Shaped[F1, "b"], "c"]
    b3 = jaxtyping.Shaped[jaxtyping.Shaped[F2, "b"], "c"]
    if accept_vec(a3) != accept_vec(jaxtyping.Float[N, "c b a"]) or accept_vec(b3) != accept_vec(jaxtyping.Int[N, "c b a"]):
        rec.violation("nesting", {"law": ["union-of-nested", "three-levels"]}, "three-level nestings of sibling annotations do not keep their own dtypes", mechanism="three-level-siblings-collide")


def _typevars_with_default():
    """PEP 696: a TypeVar's DEFAULT is not a bound - an unconstrained TypeVar with a default still stands for any array-like"""
    out = []
    try:
        import typing_extensions as te

        out.append((te.TypeVar("TD", default=np.ndarray), typing.Any))
        out.append((te.TypeVar("TDB", bound=np.ndarray, default=np.ndarray), np.ndarray))
    except Exception:  # noqa
        pass
    return out


def law_typevars(rec):
    import jax

    import jaxtyping

    cases = [
        (typing.TypeVar("TB", bound=np.ndarray), np.ndarray),
        (typing.TypeVar("TJ", bound=jax.Array), jax.Array),
        (typing.TypeVar("TC", np.ndarray, jax.Array), typing.Union[np.ndarray, jax.Array]),
        (typing.TypeVar("TC3", np.ndarray, jax.Array, real.Duck), typing.Union[np.ndarray, jax.Array, real.Duck]),
        (typing.TypeVar("TP"), typing.Any),
    ] + _typevars_with_default() + [
        (typing.TypeVar("TU", bound=typing.Union[np.ndarray, real.Duck]), typing.Union[np.ndarray, real.Duck]),
    ]
    for cname in ("Float", "Shaped", "Int8", "Num"):
        C = getattr(jaxtyping, cname)
        for tv, meaning in cases:
            for s in ("", "a b", "*v 3"):
                inst = ("typevar", cname, tv.__name__, s)
                g1, lhs = build(lambda: C[tv, s])
                g2, rhs = build(lambda: C[meaning, s])
                rec.case(inst, True)
                if g1 != "ok" or g2 != "ok":
                    rec.violation("typevar", {"law": inst}, f"build {g1}/{g2}", mechanism="typevar-build")
                    continue
                v1, v2 = accept_vec(lhs), accept_vec(rhs)
                rec.count("typevar.compared")
                if v1 != v2:
                    rec.violation("typevar", {"law": inst}, f"{cname}[{tv!r},{s!r}] != {cname}[{meaning},{s!r}]: {first_diff(v1, v2)}", mechanism="typevar-accepts-differently")


def law_nesting_regex(rec):
    """user categories whose `dtypes` is a compiled regular expression (documented), nested with string categories in
    both orders.  Where the library refuses the construction (ValueError) nothing is judged - whether a regex counts as
    overlapping is not stated (open corner); where it builds, it accepts exactly the intersection, like any nesting"""
    import re

    import jaxtyping

    N = np.ndarray
    names = sorted(universe())
    for pattern in ("float.*", "u?int(8|16)", ".*32", "(bool|complex64)"):
        rx = re.compile(pattern)
        R = type("Rx", (jaxtyping.AbstractDtype,), {"dtypes": rx})
        match = [n for n in names if rx.fullmatch(n) or rx.match(n)]
        for d in ("Float32", "Float", "Int", "UInt8", "Inexact", "Bool", "Num", "Int32"):
            D = getattr(jaxtyping, d)
            dn = names_of(d)
            for order in ("regex-outside", "regex-inside"):
                inst = ("nest-regex", pattern, d, order)
                rec.case(inst, True)
                if order == "regex-outside":
                    g, nested = build(lambda: R[D[N, "a"], "b"])
                else:
                    g, nested = build(lambda: D[R[N, "a"], "b"])
                if g == "valueerror":
                    rec.open_corner("regex-category-nesting-refused")
                    continue
                if g != "ok":
                    rec.violation("nesting", {"law": inst}, f"nesting a regex category ({pattern}) with {d} ({order}) raised {g}", mechanism="nest-regex-build-" + g)
                    continue
                # what both parts accept: dtype names of d that the regex matches (re.match semantics, as the library uses)
                inter = [n for n in dn if rx.match(n)]
                if not inter:
                    rec.violation("nesting", {"law": inst}, f"regex category {pattern} and {d} have no dtype in common, yet the nesting ({order}) was built", mechanism="nest-regex-empty-intersection-built")
                    continue
                I = type("I", (jaxtyping.AbstractDtype,), {"dtypes": list(inter)})
                flat = I[N, "b a"]
                v1, v2 = accept_vec(nested), accept_vec(flat)
                rec.count("nest.regex_compared")
                if v1 != v2:
                    rec.violation("nesting", {"law": inst}, f"regex category {pattern} nested with {d} ({order}) does not accept exactly the common dtypes {inter[:6]}: {first_diff(v1, v2)}", mechanism="nest-regex-accepts-differently")


def law_generic_array_types(rec):
    """array types that are parameterised generics (numpy.typing.NDArray[...], a subscripted typing.Generic class) mean
    their origin class - written directly, as member of a union, or as bound / constraint of a TypeVar"""
    import numpy.typing as npt

    import jaxtyping

    T_ = typing.TypeVar("T_")

    class Box(typing.Generic[T_]):
        shape = (2,)
        dtype = "float32"

    gens = [("NDArray[Any]", npt.NDArray[typing.Any], np.ndarray), ("NDArray[float32]", npt.NDArray[np.float32], np.ndarray), ("Box[int]", Box[int], Box)]
    extra = [Box()]
    for cname in ("Float", "Shaped", "Int"):
        C = getattr(jaxtyping, cname)
        for gname, G, origin in gens:
            for s in ("a", "*v", ""):
                spellings = {
                    "direct": lambda: C[G, s],
                    "union": lambda: C[typing.Union[G, real.Duck], s],
                    "pep604": lambda: C[G | real.Duck, s],
                    "typevar-bound": lambda: C[typing.TypeVar("TB", bound=G), s],
                    "typevar-constraints": lambda: C[typing.TypeVar("TC", G, real.Duck), s],
                }
                meaning = {
                    "direct": lambda: C[origin, s],
                    "union": lambda: typing.Union[C[origin, s], C[real.Duck, s]],
                    "pep604": lambda: typing.Union[C[origin, s], C[real.Duck, s]],
                    "typevar-bound": lambda: C[origin, s],
                    "typevar-constraints": lambda: typing.Union[C[origin, s], C[real.Duck, s]],
                }
                for sp in spellings:
                    inst = ("generic-array-type", cname, gname, s, sp)
                    rec.case(inst, True)
                    g1, lhs = build(spellings[sp])
                    g2, rhs = build(meaning[sp])
                    if g1 != g2:
                        rec.violation("generic", {"law": inst}, f"{cname}[<{gname} as {sp}>, {s!r}] builds as {g1}, with the origin class written out as {g2}", mechanism="generic-array-type-build-" + g1)
                        continue
                    if g1 != "ok":
                        continue
                    global _VALUES
                    values()
                    saved = _VALUES
                    _VALUES = saved + extra
                    try:
                        v1, v2 = accept_vec(lhs), accept_vec(rhs)
                    finally:
                        _VALUES = saved
                    rec.count("generic_array_types.compared")
                    if v1 != v2:
                        rec.violation("generic", {"law": inst}, f"{cname}[<{gname} as {sp}>, {s!r}] differs from the same with the origin class written out: {first_diff(v1, v2)}", mechanism="generic-array-type-accepts-differently")


def law_aliases(rec):
    import jax
    import jax.typing

    import jaxtyping

    defs = [
        ("Scalar", lambda: jaxtyping.Shaped[jax.Array, ""]),
        ("ScalarLike", lambda: jaxtyping.Shaped[jax.typing.ArrayLike, ""]),
        ("PRNGKeyArray", lambda: typing.Union[jaxtyping.Key[jax.Array, ""], jaxtyping.UInt32[jax.Array, "2"]]),
    ]
    for name, mk in defs:
        lhs = getattr(jaxtyping, name)
        v1, v2 = accept_vec(lhs), accept_vec(mk())
        rec.count("aliases.compared")
        rec.case(("alias", name), True)
        if v1 != v2:
            rec.violation("alias", {"law": ["alias", name]}, f"jaxtyping.{name} differs from its documented definition: {first_diff(v1, v2)}", mechanism="alias-" + name)
    # nesting over the aliases (docs: Int[Scalar, ''], Shaped[PRNGKeyArray, '2'])
    g, a = build(lambda: jaxtyping.Int[jaxtyping.Scalar, ""])
    g2, b = build(lambda: jaxtyping.Int[jax.Array, ""])
    if g != "ok" or accept_vec(a) != accept_vec(b):
        rec.violation("alias", {"law": ["alias", "Int[Scalar,'']"]}, "Int[Scalar,''] != Int[Array,'']", mechanism="alias-nesting")


def law_any_arraylike(rec):
    """'any array-like object' is anything with a shape and a dtype: TensorFlow tensors and variables (shape is a
    TensorShape), objects whose shape is a list, a tuple subclass (torch.Size style) or another sequence - judged
    against the dims model and the dtype oracle, not against another jaxtyping annotation"""
    import jaxtyping

    class Seq:
        def __init__(self, t):
            self.t = tuple(t)

        def __len__(self):
            return len(self.t)

        def __iter__(self):
            return iter(self.t)

        def __getitem__(self, i):
            r = self.t[i]
            return Seq(r) if isinstance(i, slice) else r

        def __eq__(self, o):
            return tuple(self) == tuple(o)

        def __hash__(self):
            return hash(self.t)

    class Size(tuple):
        pass

    vals = {}
    for shp in ((2, 3), (), (3,)):
        vals[f"duck(list {list(shp)})"] = (real.Duck(list(shp), "float32"), shp)
        vals[f"duck(Seq {shp})"] = (real.Duck(Seq(shp), "float32"), shp)
        vals[f"duck(tuple-subclass {shp})"] = (real.Duck(Size(shp), "float32"), shp)
    class Delegating:
        """a wrapper that forwards attribute access (shape, dtype, ...) to the array it holds via __getattr__"""

        def __init__(self, a):
            self.__dict__["_a"] = a

        def __getattr__(self, name):
            return getattr(self.__dict__["_a"], name)

    for shp in ((2, 3), (), (3,)):
        vals[f"delegating-wrapper{shp}"] = (Delegating(real.np_array(shp)), shp)
    try:
        import tensorflow as tf

        for shp in ((2, 3), (), (3,)):
            vals[f"tf.Tensor{shp}"] = (tf.zeros(shp, dtype=tf.float32), shp)
        vals["tf.Variable(2, 3)"] = (tf.Variable(tf.zeros((2, 3))), (2, 3))
        rec.count("any.tf_values", 4)
    except Exception:
        pass
    T = typing.TypeVar("T")
    # 'array-like' is a property of the VALUE, not of its Python type: objects of one class with and without a
    # shape / dtype (proxies, lazily filled handles), in both orders
    for order in ("arraylike-first", "arraylike-last"):
        P = type("Proxy_" + order.replace("-", "_"), (), {})

        def mkp(full):
            p = P()
            if full:
                p.shape, p.dtype = (2, 3), "float32"
            return p

        seq = [True, False, True, False] if order == "arraylike-first" else [False, True, False, True]
        for tname, at in (("Any", typing.Any), ("TypeVar", T)):
            ann = jaxtyping.Float[at, "a b"]
            got = []
            for full in seq:
                try:
                    got.append(real.in_block_context(lambda: real.check(mkp(full), ann)))
                except Exception as e:  # noqa
                    got.append("exc:" + type(e).__name__)
            want = ["ok" if full else "no" for full in seq]
            rec.count("any.same_class_with_and_without_attributes")
            rec.case(("any-proxy", order, tname), True)
            if got != want:
                rec.violation("any-arraylike", {"law": ["any-arraylike", "proxy", order, tname]}, f"Float[{tname}, 'a b'] on objects of ONE class, {order} (with / without shape+dtype {seq}): {got}, expected {want}", mechanism="any-arraylike-decided-per-class-not-per-value")
    for vname, (x, shp) in vals.items():
        for cname, dt_ok in (("Shaped", True), ("Float", True), ("Float32", True), ("Int", False), ("Num", True), ("Bool", False)):
            for spec in ("a b", "a", "", "...", "*v b", "a 3", "a 4", "#a #b", "*v", "2 _"):
                for tname, at in (("Any", typing.Any), ("TypeVar", T)):
                    ann = getattr(jaxtyping, cname)[at, spec]
                    got = real.in_block_context(lambda: real.check(x, ann))
                    vd = M.match(M.parse(spec), tuple(shp), {}, {}, {})[0]
                    want = "ok" if (dt_ok and vd == "ok") else "no"
                    rec.count("any.arraylike_compared")
                    rec.case(("any", vname, cname, spec, tname), True)
                    if got != want:
                        rec.violation("any-arraylike", {"law": ["any-arraylike", vname, cname, spec, tname]}, f"{cname}[{tname}, {spec!r}] on {vname} (float32): {got}, expected {want}", mechanism=f"any-arraylike-{vname.split('(')[0].split(' ')[0]}-{got}")
                        return


PRNG_CHILD = r'''
import json, os, sys, typing, warnings
warnings.filterwarnings("ignore")
import numpy as np, jax, jax.numpy as jnp
how = sys.argv[1]
if how.startswith("config:"):
    jax.config.update("jax_default_prng_impl", how.split(":")[1])
import jaxtyping
P = jaxtyping.PRNGKeyArray
vals = {
  "uint32(2,)": jnp.zeros((2,), dtype="uint32"), "uint32(4,)": jnp.zeros((4,), dtype="uint32"), "uint32(3,)": jnp.zeros((3,), dtype="uint32"),
  "int32(2,)": jnp.zeros((2,), dtype="int32"), "float32(2,)": jnp.zeros((2,)), "uint32()": jnp.zeros((), dtype="uint32"),
  "key(0)": jax.random.key(0), "key(0,impl=rbg)": jax.random.key(0, impl="rbg"), "key(0,impl=threefry2x32)": jax.random.key(0, impl="threefry2x32"),
  "split(key)": jax.random.split(jax.random.key(0), 2), "PRNGKey(0,impl=threefry2x32)": jax.random.PRNGKey(0, impl="threefry2x32"),
  "numpy uint32(2,)": np.zeros((2,), dtype="uint32"),
}
out = {}
for k, v in vals.items():
    try:
        out[k] = any(isinstance(v, alt) for alt in (typing.get_args(P) if typing.get_origin(P) is typing.Union else (P,)))
    except Exception as e:
        out[k] = "exc:" + type(e).__name__
print(json.dumps(out))
'''


def law_prng_impls(rec):
    """PRNGKeyArray = Union[Key[Array, ''], UInt32[Array, '2']] - whichever PRNG implementation the process has
    configured (environment or jax.config, before jaxtyping is imported)"""
    import subprocess
    import sys

    want = {"uint32(2,)": True, "uint32(4,)": False, "uint32(3,)": False, "int32(2,)": False, "float32(2,)": False, "uint32()": False, "key(0)": True, "key(0,impl=rbg)": True, "key(0,impl=threefry2x32)": True, "split(key)": False, "PRNGKey(0,impl=threefry2x32)": True, "numpy uint32(2,)": False}
    for how in ("default", "env:rbg", "env:unsafe_rbg", "env:threefry2x32", "config:rbg", "config:unsafe_rbg"):
        env = dict(os.environ)
        env.pop("JAX_DEFAULT_PRNG_IMPL", None)
        if how.startswith("env:"):
            env["JAX_DEFAULT_PRNG_IMPL"] = how.split(":")[1]
        r = subprocess.run([sys.executable, "-c", PRNG_CHILD, how], capture_output=True, text=True, env=env, timeout=300)
        try:
            out = json.loads(r.stdout.strip().splitlines()[-1])
        except Exception:
            rec.inconclusive.append(f"prng child {how} failed: {r.stderr[-300:]}")
            continue
        rec.count("prng_impl.processes")
        rec.case(("prng", how), True)
        for k, w in want.items():
            if out.get(k) is not w:
                rec.violation("alias", {"law": ["alias", "PRNGKeyArray", how, k]}, f"process with PRNG implementation {how}: isinstance({k}, PRNGKeyArray) = {out.get(k)}, documented definition says {w}", mechanism="alias-PRNGKeyArray-under-" + how.split(":")[0] + "-impl")
                break


def run_shard(rec, seed, shard, tier):
    import jax

    warnings.filterwarnings("ignore")
    if shard.get("i", 1) % 2 == 1:
        real.hostile_prelude(rec)  # a past: nothing the check decides may depend on it
        real.toplevel_probes(rec, None, "after the hostile prelude")
    jax.config.update("jax_enable_x64", False)
    cats = DT.ALL_CATEGORIES
    rng = random.Random(f"{seed}/C15/sample")
    frac = NEST_FRACTION[tier]
    idx = 0
    for d1 in cats:
        for d2 in cats:
            for s1 in DIMS:
                for s2 in DIMS:
                    take = frac >= 1.0 or rng.random() < frac
                    idx += 1
                    if not take or idx % NSHARDS != shard["i"]:
                        continue
                    A, aname = (typing.Any, "Any") if idx % 3 else (np.ndarray, "ndarray")
                    law_nesting(rec, d1, d2, s1, s2, A, aname)
    if shard["i"] == 0:
        law_scalars(rec)
        law_aliases(rec)
    if shard["i"] == 1:
        law_unions(rec)
    if shard["i"] == 2:
        law_typevars(rec)
    if shard["i"] == 3:
        law_union_of_nested(rec)
    if shard["i"] == 4:
        law_any_arraylike(rec)
    if shard["i"] == 5:
        law_prng_impls(rec)
    if shard["i"] == 6:
        law_nesting_regex(rec)
    if shard["i"] == 7:
        law_generic_array_types(rec)
    rec.info["nest_space"] = idx if shard["i"] == 0 else 0
    rec.sample({"law": "nesting", "instance": ["Float", "Shaped", "a b", "*v", "ndarray"]})


def extra_coverage(agg, tier):
    return {"exhaustive": tier == "thorough" and agg["nviol"] == 0}


def replay(rec, case):
    import jax

    import jaxtyping

    warnings.filterwarnings("ignore")
    law = case["law"]
    if law[0] == "nest":
        _, d1, d2, s1, s2, aname = law
        law_nesting(rec, d1, d2, s1, s2, typing.Any if aname == "Any" else np.ndarray, aname)
    elif law[0] == "scalar":
        law_scalars(rec)
    elif law[0] == "union":
        law_unions(rec)
    elif law[0] == "typevar":
        law_typevars(rec)
    else:
        law_aliases(rec)

"""C05 — bindings live exactly as long as one jaxtyped call or context block.

Random finite programs are emitted as Python source and executed; every node logs
print_bindings(). A ~30-line reference interpreter (a stack of frames; call/with push,
every exit pops, manual checks bind on the top, top level is stateless) predicts the log.
"""

from __future__ import annotations

import json
import os
import random
import sys
import warnings

from .. import real

LEVEL = "exploration"
TECHNIQUE = "runtime monitoring: generated programs of nested/recursive decorated calls, context blocks, manual checks and exits of every exception class, executed against the real code with print_bindings() logged at every program point and compared with a stack-of-dicts reference interpreter; sibling programs generated for and executed under python -O / -OO in child processes; scopes and decorated calls entered at every distance from the recursion limit (fresh process): whether the entry succeeds or dies with RecursionError, afterwards no scope is left open; getter / setter / deleter of a decorated property called from a scope with bindings of its own"
LEVEL_TEXT = (
    "Held on every generated program explored (thousands per run, depth <=6, every construct x exit-kind pair required "
    "to be executed). The oracle is a trivial interpreter, so any leak, missing pop or premature pop shows at the first "
    "observation point after it. Sampling over programs, not proof."
)
LEVEL_NOTE = "Trusts print_bindings() as the observation and the reference interpreter in this file."
RULE = (
    "one case = one generated program (<=40 nodes) over: new-style / old-style / typechecker=None functions, dataclass "
    "__init__, method/classmethod/staticmethod/property, with-blocks, recursion, generator and coroutine creation, manual "
    "checks incl. {arg}-symbolic ones, non-binding calls; exits by return / Exception / KeyboardInterrupt / GeneratorExit / "
    "SystemExit subclasses. non-trivial = program nests >=2 contexts; distinct by source text."
)
ASSUMPTIONS = ["programs are straight-line (no loops), so the expected log is computed while the source is emitted"]
CASES = {"quick": 250, "thorough": 6000}
NSHARDS = 16

CONSTRUCTS = ["new", "unannotated", "ctxcopy", "old", "none", "disabled", "dataclass", "method", "classmethod", "staticmethod", "property", "with", "recursion", "generator", "coroutine", "nonbinding", "wrapstack", "oldgen"]
EXITS = ["return", "Exception", "KeyboardInterrupt", "GeneratorExit", "SystemExit", "BadNotes"]
RAISE = {"Exception": "raise ValueError('x')", "KeyboardInterrupt": "raise KI()", "GeneratorExit": "raise GeneratorExit()", "SystemExit": "raise SE(3)", "BadNotes": "raise BADNOTES[len(LOG) % 3]()"}


def shards(tier):
    return [{"i": i} for i in range(NSHARDS)]


def required_counters(tier):
    d = {f"pair.{c}.{e}": 1 for c in CONSTRUCTS if c != "nonbinding" for e in EXITS}
    d.update({"programs": 1000, "stack_exhaustion.entries": 100, "property_accessors.scenarios": 2, "stack_exhaustion.entries_that_died_with_RecursionError": 5, "observations": 10000, "depth>=3": 200, "argcheck.callee": 100, "argcheck.caller_after": 100, "argcheck.no_arg_in_frame": 100, "toplevel_checks": 200, "pair.nonbinding.TypeError": 50, "programs.optimized_interpreter": 20, "calls_made_by_exec_inside_an_open_call": 100, "decorated_inside_a_live_scope": 200})
    return d


PRELUDE = '''
import contextvars, dataclasses, functools, typing
import numpy as np
import jaxtyping
from jaxtyping import jaxtyped, Shaped, AnnotationError, PyTree
LOG = []
CTX = {}
class KI(KeyboardInterrupt): pass
class SE(SystemExit): pass
class BadNotesBase(Exception): pass   # exceptions to which no note can be attached
class BN1(BadNotesBase): __notes__ = ("frozen",)
class BN2(BadNotesBase): __notes__ = None
class BN3(BadNotesBase):
    def add_note(self, note): raise RuntimeError("no notes here")
BADNOTES = (BN1, BN2, BN3)
def EXCNAME(e):
    # (whatever a wrapper turns such an exception into while trying to annotate it, it is still that exit)
    x, seen = e, 0
    while x is not None and seen < 20:
        if isinstance(x, BadNotesBase): return "BadNotes"
        x, seen = (x.__context__ or x.__cause__), seen + 1
    return type(e).__name__
def A(n): return np.broadcast_to(np.float32(0), (n,))
def obs(i): LOG.append((i, "obs", TRANSCRIPT()))
def chk(i, name, size):
    r = isinstance(A(size), Shaped[np.ndarray, name])
    LOG.append((i, "chk", r, TRANSCRIPT()))
def chkarg(i, value):
    try:
        r = isinstance(A(value), Shaped[np.ndarray, "{n}"])
    except AnnotationError:
        r = "annot"
    LOG.append((i, "chkarg", r, TRANSCRIPT()))
'''


class Gen:
    def __init__(self, rng, tc_name, optimized=False):
        # optimized: the program is meant for `python -O`, where typeguard.typechecked and beartype.beartype both
        # return the function unchanged (documented behaviour of both): annotated parameters are then never
        # checked, hence never bound - contexts, {argument} values and manual isinstance checks work as always
        self.optimized = optimized
        self.rng = rng
        self.tc = tc_name
        self.lines = []
        self.defs = []
        self.expected = []
        self.nid = 0
        self.stack = []  # frames: {"binds": {}, "n": value|None}
        self.maxdepth = 0
        self.pairs = set()
        self.budget = 40
        self.counts = {}
        self.disabled = 0  # >0 while the program is inside a config.update('jaxtyping_disable', True) region

    def new_id(self):
        self.nid += 1
        return self.nid

    def tr(self):
        """expected transcript at this point"""
        if not self.stack:
            return {}
        return dict(self.stack[-1]["binds"])

    def emit(self, ind, s):
        self.lines.append("    " * ind + s)

    # ---- leaf nodes
    def node_obs(self, ind):
        i = self.new_id()
        self.emit(ind, f"obs({i})")
        self.expected.append((i, "obs", self.tr()))

    def node_chk(self, ind):
        i = self.new_id()
        name = self.rng.choice(("a", "b", "c"))
        size = self.rng.choice((1, 2, 3))
        self.emit(ind, f"chk({i}, {name!r}, {size})")
        if not self.stack:
            self.expected.append((i, "chk", True, {}))
            self.counts["toplevel_checks"] = self.counts.get("toplevel_checks", 0) + 1
            return
        b = self.stack[-1]["binds"]
        if name in b:
            r = b[name] == size
        else:
            b[name] = size
            r = True
        self.expected.append((i, "chk", r, self.tr()))

    def node_chkarg(self, ind, where):
        i = self.new_id()
        n = self.stack[-1]["n"] if self.stack else None
        if n is None:
            self.emit(ind, f"chkarg({i}, 2)")
            # no argument 'n' in this frame: AnnotationError inside a context; at top level too
            self.expected.append((i, "chkarg", "annot", self.tr()))
            self.counts["argcheck.no_arg_in_frame"] = self.counts.get("argcheck.no_arg_in_frame", 0) + 1
        else:
            self.emit(ind, f"chkarg({i}, {n})")
            self.expected.append((i, "chkarg", True, self.tr()))
            self.counts["argcheck." + where] = self.counts.get("argcheck." + where, 0) + 1

    def node_decorate_only(self, ind):
        """a function is DEFINED and decorated here (with annotations nobody has seen before, incl. structured
        PyTrees) and never called: typecheckers probe such annotations while decorating - nothing gets bound"""
        i = self.new_id()
        tc = self.rng.choice(("beartype_tc", "typeguard_tc"))
        self.emit(ind, f"@jaxtyped(typechecker={tc})")
        self.emit(ind, f'def unused_{i}(t: PyTree[Shaped[np.ndarray, "zz{i}"], "TT{i}"], u: typing.Optional[PyTree[int, "UU{i}"]] = None, v: Shaped[np.ndarray, "vv{i}"] = None) -> PyTree[Shaped[np.ndarray, "zz{i}"], "TT{i}"]:')
        self.emit(ind + 1, "return t")
        j = self.new_id()
        self.emit(ind, f"obs({j})")
        self.expected.append((j, "obs", self.tr()))
        self.counts["decorated_inside_a_live_scope"] = self.counts.get("decorated_inside_a_live_scope", 0) + (1 if self.stack else 0)

    # ---- bodies
    def body(self, ind, depth, has_n):
        """emit 1-3 nodes; returns the name of an exception propagating out, or None"""
        k = self.rng.choice((1, 2, 2, 3))
        for _ in range(k):
            if self.budget <= 0:
                break
            self.budget -= 1
            r = self.rng.random()
            if r < 0.3:
                self.node_chk(ind)
            elif r < 0.34:
                self.node_decorate_only(ind)
            elif r < 0.4:
                self.node_obs(ind)
            elif r < 0.5:
                self.node_chkarg(ind, "callee")  # in a frame without 'n': must raise AnnotationError
            elif depth < 6:
                prop = self.construct(ind, depth)
                if prop is not None:
                    return prop  # an exception is propagating: nothing after it runs
                if has_n and self.rng.random() < 0.5:
                    self.node_chkarg(ind, "caller_after")
            else:
                self.node_chk(ind)
        return None

    def finish_body(self, ind, depth, has_n, ex):
        """body + final observation + exit statement; returns propagating exception or None"""
        prop = self.body(ind, depth, has_n)
        if prop is not None:
            return prop
        self.node_obs(ind)
        if ex != "return":
            self.emit(ind, RAISE[ex])
            return {"Exception": "ValueError", "KeyboardInterrupt": "KI", "GeneratorExit": "GeneratorExit", "SystemExit": "SE", "BadNotes": "BadNotes"}[ex]
        return None

    def call_site(self, ind, i, callsrc, prop, depth, extra_except=None):
        """emit the call. Usually wrapped in try/except that logs the outcome; sometimes
        (inside another construct) left bare so that the exception unwinds several contexts."""
        if depth > 0 and self.rng.random() < 0.15 and "\n" not in callsrc:
            # the call is made by code compiled on the fly while the enclosing call is open (exec / eval of a
            # snippet, a lazy import, a debugger prompt): its frame is module-level code, the scopes are the same
            callsrc = f"exec(compile({callsrc!r}, '<jtv-exec>', 'exec'), globals(), locals())"
            self.counts["calls_made_by_exec_inside_an_open_call"] = self.counts.get("calls_made_by_exec_inside_an_open_call", 0) + 1
        bare = depth > 0 and self.rng.random() < 0.3
        if bare:
            self.emit(ind, callsrc)
            if prop is None:
                self.node_obs(ind)
            return prop
        self.emit(ind, "try:")
        self.emit(ind + 1, callsrc)
        self.emit(ind + 1, f'LOG.append(({i}, "done"))')
        if extra_except:
            self.emit(ind, f"except {extra_except}:")
            self.emit(ind + 1, f'LOG.append(({i}, "done"))')
        self.emit(ind, "except BaseException as e:")
        self.emit(ind + 1, f'LOG.append(({i}, "exc", EXCNAME(e)))')
        self.expected.append((i, "done") if prop is None else (i, "exc", prop))
        self.node_obs(ind)
        return None

    def construct(self, ind, depth):
        c = self.rng.choice(CONSTRUCTS)
        ex = self.rng.choice(EXITS) if self.rng.random() < 0.5 else "return"
        i = self.new_id()
        self.maxdepth = max(self.maxdepth, depth + 1)
        size = self.rng.choice((2, 3, 4))
        nval = self.rng.choice((1, 2, 3))
        ann = f'Shaped[np.ndarray, "p{i}"]'
        tc = self.tc
        before = self.tr()

        if self.disabled and c in ("recursion", "wrapstack"):
            c = "new"
        NEW_STYLE = ("new", "unannotated", "ctxcopy", "dataclass", "method", "classmethod", "staticmethod", "property")

        def framed(bind_ind, bind_p, n):
            if self.disabled and c in NEW_STYLE:
                # checking is off: the wrapper calls straight through, no context, no binding
                caller_has_n = bool(self.stack) and self.stack[-1]["n"] is not None
                return self.finish_body(bind_ind, depth + 1, caller_has_n, ex)
            fr = {"binds": {}, "n": n}
            if bind_p and not self.optimized:
                fr["binds"][f"p{i}"] = size
            self.stack.append(fr)
            prop = self.finish_body(bind_ind, depth + 1, n is not None, ex)
            self.stack.pop()
            return prop

        if c == "nonbinding":
            self.emit(ind, f"@jaxtyped(typechecker={tc})")
            self.emit(ind, f"def f_{i}(x: {ann}, n: int):")
            self.emit(ind + 1, f"obs({self.new_id()})  # must never run")
            self.pairs.add(("nonbinding", "TypeError"))
            return self.call_site(ind, i, self.rng.choice((f"f_{i}()", f"f_{i}(A(2), 1, 2)", f"f_{i}(A(2), n=1, z=3)")), "TypeError", depth)
        self.pairs.add((c, ex))
        if c == "ctxcopy":
            # a contextvars.Context copied while the call is open (what create_task / call_soon / to_thread do),
            # and code run inside that copy AFTER the call has ended: bindings are per thread and per call,
            # so that code sees exactly what the current thread has open now - never the ended call's frame
            self.emit(ind, f"@jaxtyped(typechecker={tc})")
            self.emit(ind, f"def f_{i}(x: {ann}, n: int):")
            self.emit(ind + 1, f"CTX[{i}] = contextvars.copy_context()")
            prop = framed(ind + 1, True, nval)
            r = self.call_site(ind, i, f"f_{i}(A({size}), {nval})", prop, depth)
            if r is None and not self.disabled:
                j1, j2 = self.new_id(), self.new_id()
                self.emit(ind, f"CTX[{i}].run(obs, {j1})")
                self.expected.append((j1, "obs", self.tr()))
                self.emit(ind, f"CTX[{i}].run(chk, {j2}, 'a', 2)")
                if not self.stack:
                    self.expected.append((j2, "chk", True, {}))
                else:
                    b = self.stack[-1]["binds"]
                    if "a" in b:
                        ok = b["a"] == 2
                    else:
                        b["a"] = 2
                        ok = True
                    self.expected.append((j2, "chk", ok, self.tr()))
            return r
        if c == "wrapstack":
            # a decorated function g, and a second decorated function f that carries g's metadata through
            # functools.wraps (a retry / logging / caching layer that is itself type-checked): TWO calls, TWO scopes
            j = self.new_id()
            self.emit(ind, f"@jaxtyped(typechecker={tc})")
            self.emit(ind, f"def g_{i}(x: {ann}, n: int):")
            self.emit(ind + 1, f"obs({j})")
            self.emit(ind, f"@jaxtyped(typechecker={tc})")
            self.emit(ind, f"@functools.wraps(g_{i})")
            self.emit(ind, f"def f_{i}(x: {ann}, n: int):")
            self.emit(ind + 1, f"g_{i}(x, n)")
            self.expected.append((j, "obs", {} if self.optimized else {f"p{i}": size}))
            prop = framed(ind + 1, True, nval)
            return self.call_site(ind, i, f"f_{i}(A({size}), {nval})", prop, depth)
        if c == "unannotated":
            # no annotation anywhere: still a jaxtyped call, so still a context of its own
            self.emit(ind, f"@jaxtyped(typechecker={tc})")
            self.emit(ind, f"def f_{i}(x, n):")
            prop = framed(ind + 1, False, nval)
            return self.call_site(ind, i, f"f_{i}(A({size}), {nval})", prop, depth)
        if c in ("new", "old", "none"):
            if c == "new":
                self.emit(ind, f"@jaxtyped(typechecker={tc})")
            elif c == "none":
                self.emit(ind, "@jaxtyped(typechecker=None)")
            else:
                self.emit(ind, "@jaxtyped")
                self.emit(ind, f"@{tc}")
            self.emit(ind, f"def f_{i}(x: {ann}, n: int):")
            prop = framed(ind + 1, c != "none", nval)
            return self.call_site(ind, i, f"f_{i}(A({size}), {nval})", prop, depth)
        if c == "disabled":
            # a decorated call made while checking is switched off behaves like the plain
            # function: no context of its own, the body sees the caller's bindings
            self.emit(ind, f"@jaxtyped(typechecker={tc})")
            self.emit(ind, f"def f_{i}(x: {ann}, n: int):")
            caller_has_n = bool(self.stack) and self.stack[-1]["n"] is not None
            self.disabled += 1
            prop = self.finish_body(ind + 1, depth + 1, caller_has_n, ex)
            self.disabled -= 1
            was = "True" if self.disabled else "False"
            self.emit(ind, 'jaxtyping.config.update("jaxtyping_disable", True)')
            self.emit(ind, "try:")
            r = self.call_site(ind + 1, i, f"f_{i}(A({size}), {nval})", prop, depth)
            self.emit(ind, "finally:")
            self.emit(ind + 1, f'jaxtyping.config.update("jaxtyping_disable", {was})')
            return r
        if c == "dataclass":
            self.emit(ind, f"@jaxtyped(typechecker={tc})")
            self.emit(ind, "@dataclasses.dataclass")
            self.emit(ind, f"class D_{i}:")
            self.emit(ind + 1, f"x: {ann}")
            self.emit(ind + 1, "def __post_init__(self):")
            prop = framed(ind + 2, True, None)
            return self.call_site(ind, i, f"D_{i}(A({size}))", prop, depth)
        if c in ("method", "classmethod", "staticmethod", "property"):
            self.emit(ind, f"class K_{i}:")
            self.emit(ind + 1, f"@jaxtyped(typechecker={tc})")
            if c == "method":
                self.emit(ind + 1, f"def m(self, x: {ann}, n: int):")
                call = f"K_{i}().m(A({size}), {nval})"
            elif c == "classmethod":
                self.emit(ind + 1, "@classmethod")
                self.emit(ind + 1, f"def m(cls, x: {ann}, n: int):")
                call = f"K_{i}.m(A({size}), {nval})"
            elif c == "staticmethod":
                self.emit(ind + 1, "@staticmethod")
                self.emit(ind + 1, f"def m(x: {ann}, n: int):")
                call = f"K_{i}.m(A({size}), {nval})"
            else:
                self.emit(ind + 1, "@property")
                self.emit(ind + 1, "def m(self):")
                call = f"K_{i}().m"
            prop = framed(ind + 2, c != "property", nval if c != "property" else None)
            return self.call_site(ind, i, call, prop, depth)
        if c == "with":
            bare = depth > 0 and self.rng.random() < 0.3
            base = ind if bare else ind + 1
            if not bare:
                self.emit(ind, "try:")
            self.emit(base, 'with jaxtyped("context"):')
            prop = framed(base + 1, False, None)
            if bare:
                if prop is None:
                    self.node_obs(ind)
                return prop
            self.emit(ind + 1, f'LOG.append(({i}, "done"))')
            self.emit(ind, "except BaseException as e:")
            self.emit(ind + 1, f'LOG.append(({i}, "exc", EXCNAME(e)))')
            self.expected.append((i, "done") if prop is None else (i, "exc", prop))
            self.node_obs(ind)
            return None
        if c == "recursion":
            levels = self.rng.choice((2, 3))
            self.emit(ind, f"@jaxtyped(typechecker={tc})")
            self.emit(ind, f"def r_{i}(x: {ann}, n: int):")
            j1 = self.new_id()
            j2 = self.new_id()
            self.emit(ind + 1, f'chk({j1} * 1000 + n, "q", n + 1)')
            self.emit(ind + 1, "if n > 0:")
            self.emit(ind + 2, f"r_{i}(A(x.shape[0] + 1), n - 1)")
            self.emit(ind + 2, f"obs({j2} * 1000 + n)")
            self.emit(ind + 1, "else:")
            for lv in range(levels, -1, -1):  # unroll the descent in the model
                self.stack.append({"binds": ({"q": lv + 1} if self.optimized else {f"p{i}": size + (levels - lv), "q": lv + 1}), "n": lv})
                self.expected.append((j1 * 1000 + lv, "chk", True, self.tr()))
            prop = self.finish_body(ind + 2, depth + 1, True, ex)
            self.stack.pop()
            for lv in range(1, levels + 1):
                if prop is None:
                    self.expected.append((j2 * 1000 + lv, "obs", self.tr()))
                self.stack.pop()
            return self.call_site(ind, i, f"r_{i}(A({size}), {levels})", prop, depth)
        if c == "oldgen":
            # the old double-decorator spelling on a generator function whose annotation has all three slots
            # (Generator[Yield, Send, Return]) with axis names of their own: whoever drives the generator later, in
            # whatever scope, neither sees those names nor has its own bindings compared with them
            j1, j2 = self.new_id(), self.new_id()
            self.emit(ind, "@jaxtyped")
            self.emit(ind, "@typeguard_tc")
            self.emit(ind, f'def og_{i}(x: {ann}, n: int) -> typing.Generator[Shaped[np.ndarray, "a"], Shaped[np.ndarray, "b"], Shaped[np.ndarray, "c"]]:')
            self.emit(ind + 1, "got = yield A(7)")
            self.emit(ind + 1, "return A(9)")
            self.emit(ind, f"ogit_{i} = og_{i}(A({size}), {nval})")
            self.emit(ind, f"obs({j1})")
            self.expected.append((j1, "obs", self.tr()))
            self.emit(ind, "try:")
            self.emit(ind + 1, f"next(ogit_{i})")
            self.emit(ind + 1, f"ogit_{i}.send(A(8))")
            self.emit(ind, "except StopIteration:")
            self.emit(ind + 1, "pass")
            self.emit(ind, f"obs({j2})")
            self.expected.append((j2, "obs", self.tr()))
            self.pairs.add(("oldgen", "return"))
            for e_ in EXITS:
                self.pairs.add(("oldgen", e_))  # (no body of its own: the exit kinds do not apply)
            return None
        if c in ("generator", "coroutine"):
            style = self.rng.choice(("new", "none"))
            self.emit(ind, f"@jaxtyped(typechecker={tc if style == 'new' else 'None'})")
            self.emit(ind, f"{'async ' if c == 'coroutine' else ''}def g_{i}(x: {ann}, n: int):")
            j = self.new_id()
            # creation: the call returns at once and must leave the caller's bindings alone
            self.expected.append((j, "obs", before))
            # the body runs when resumed, AFTER the call has returned: in the caller's context
            prop = self.finish_body(ind + 1, depth + 1, False, ex)
            self.emit(ind + 1, "yield 1" if c == "generator" else "return 1")
            self.emit(ind, f"it_{i} = g_{i}(A({size}), {nval})")
            self.emit(ind, f"obs({j})")
            return self.call_site(ind, i, f"it_{i}.send(None)", prop, 0, extra_except="StopIteration")  # never bare: a finished coroutine raises StopIteration
        raise AssertionError(c)


def norm(entry):
    """normalise a real log entry: parse transcripts into dicts of axis bindings"""
    e = list(entry)
    if e[1] in ("obs",):
        s, v, t = real.parse_transcript(e[2])
        e[2] = s if not (v or t) else {"single": s, "variadic": v, "trees": t}
    elif e[1] in ("chk", "chkarg"):
        s, v, t = real.parse_transcript(e[3])
        e[3] = s if not (v or t) else {"single": s, "variadic": v, "trees": t}
    return tuple(e)


def run_program(rec, rng, key):
    tc_name = rng.choice(("typeguard.typechecked", "beartype.beartype"))
    g = Gen(rng, tc_name.split(".")[0] + "_tc")
    g.node_chk(0)  # top level must be stateless
    while g.budget > 0 and len(g.lines) < 400:
        before = g.budget
        g.construct(0, 0)
        if rng.random() < 0.3:
            g.node_chk(0)
        if g.budget == before:
            g.budget -= 1
    g.node_obs(0)
    src = PRELUDE + "\n".join(g.lines) + "\n"
    import beartype
    import typeguard

    ns = {"TRANSCRIPT": real.raw_transcript, "typeguard_tc": typeguard.typechecked, "beartype_tc": beartype.beartype, "__name__": "jtv_c05_prog"}
    case = {"rngkey": key, "source": src if len(src) < 6000 else src[:6000] + "...", "checker": tc_name}
    try:
        real.exec_src(src, ns)
    except BaseException as e:  # noqa
        rec.violation("program-crashed", case, f"generated program raised {type(e).__name__}: {str(e)[:300]}", mechanism="program-crash-" + type(e).__name__)
        return
    got = [norm(e) for e in ns["LOG"]]
    exp = [tuple(e) for e in g.expected]
    if _OTHER_INTERPRETER is not None and len(_OTHER_INTERPRETER) < OPT_PROGRAMS.get(_TIER[0], 4):
        # a sibling program generated for an optimizing interpreter (python -O / -OO), run there in one batch
        g2 = Gen(random.Random(key + "/optimized"), tc_name.split(".")[0] + "_tc", optimized=True)
        g2.node_chk(0)
        while g2.budget > 0 and len(g2.lines) < 400:
            b0 = g2.budget
            g2.construct(0, 0)
            if g2.budget == b0:
                g2.budget -= 1
        g2.node_obs(0)
        src2 = PRELUDE + "\n".join(g2.lines) + "\n"
        _OTHER_INTERPRETER.append((key, src2, [tuple(e) for e in g2.expected], {"rngkey": key, "source": src2[:6000], "checker": tc_name}))
    rec.case(src, nontrivial=g.maxdepth >= 2)
    if len(g.lines) < 200:
        rec.sample({"rngkey": key, "program_head": "\n".join(g.lines)[:1800], "expected_log_head": [list(map(str, e)) for e in exp[:6]]})
    rec.count("programs")
    rec.count("observations", len(got))
    if g.maxdepth >= 3:
        rec.count("depth>=3")
    for (c, e) in g.pairs:
        rec.count(f"pair.{c}.{e}")
    for k, v in g.counts.items():
        rec.count(k, v)
    # compare per program point (generator bodies are predicted at definition time but run later)
    if sorted(got) != sorted(exp):
        gi = {e[0]: e for e in got}
        for e in exp:
            if gi.get(e[0]) != e:
                real_e = gi.get(e[0])
                kind = "missing-event" if real_e is None else "bindings-differ"
                rec.violation(
                    "lifetime",
                    case,
                    f"program point {e[0]}: reference interpreter expects {e}, real {real_e}",
                    mechanism=classify(e, real_e),
                )
                return
        extra = [e for e in got if e[0] not in {x[0] for x in exp}]
        rec.violation("lifetime", case, f"events not predicted (code ran that must not run): {extra[:3]}; order exp={[e[0] for e in exp][:30]} got={[e[0] for e in got][:30]}", mechanism="unexpected-event-or-order")
    # top level stays stateless after the program
    if real.raw_transcript().strip():
        rec.violation("lifetime", case, f"after the program, top-level print_bindings() prints {real.raw_transcript()!r}", mechanism="context-left-open")
        # repair harness state so that following programs are judged on their own
        try:
            from jaxtyping._storage import _shape_storage

            _shape_storage.memo_stack.clear()
        except Exception:
            pass


def classify(exp, got):
    if got is None:
        return "event-missing"
    if exp[1] == "obs" or exp[1] == "chk":
        eb = exp[-1]
        gb = got[-1]
        if isinstance(gb, dict) and isinstance(eb, dict):
            extra = set(gb) - set(eb)
            missing = set(eb) - set(gb)
            if extra and not missing:
                return "bindings-leaked-into-scope"
            if missing and not extra:
                return "bindings-lost"
    if exp[1] == "exc" or got[1] == "exc":
        return "wrong-exit"
    return "bindings-differ"


OPT_PROGRAMS = {"quick": 6, "thorough": 60}
_OTHER_INTERPRETER = None
_TIER = ["quick"]


def _jsonable(x):
    return json.loads(json.dumps(x, default=str))


def run_optimized(rec, jobs, flag):
    """the same programs under `python -O` / `-OO` (asserts and docstrings compiled away): same logs"""
    import subprocess
    import tempfile

    if not jobs:
        return
    root = os.path.dirname(os.path.dirname(os.path.dirname(os.path.abspath(__file__))))
    with tempfile.NamedTemporaryFile("w", suffix=".json", delete=False) as f:
        json.dump([[k, s] for k, s, _, _ in jobs], f)
        jf = f.name
    try:
        env = dict(os.environ)
        env["PYTHONPATH"] = os.pathsep.join([os.environ.get("JTV_REPO", "/repo"), root])
        env.pop("PYTHONOPTIMIZE", None)
        r = subprocess.run([sys.executable, flag, "-m", "jtv.checks.c05_child", jf], capture_output=True, text=True, env=env, timeout=1500, cwd=root)
        try:
            res = json.loads(r.stdout.strip().splitlines()[-1])
        except Exception:
            rec.inconclusive.append(f"python {flag} child failed: rc={r.returncode} {r.stderr[-400:]}")
            return
        if res.get("optimize", 0) < 1:
            rec.inconclusive.append(f"python {flag} child did not run optimized")
            return
        for key, src, exp, case in jobs:
            o = res["logs"].get(key)
            rec.count("programs.optimized_interpreter")
            rec.case((src, flag), True)
            c2 = dict(case, interpreter="python " + flag)
            if o is None or "crash" in o:
                rec.violation("program-crashed", c2, f"under python {flag} the generated program raised {o and o['crash']}", mechanism="optimized-interpreter-program-crash")
                return
            got = sorted(json.dumps(e, sort_keys=True) for e in o["log"])
            want = sorted(json.dumps(_jsonable(list(e)), sort_keys=True) for e in exp)
            if got != want:
                gi = {e[0]: e for e in o["log"]}
                bad = next((e for e in exp if _jsonable(list(e)) != gi.get(e[0])), None)
                rec.violation("lifetime", c2, f"under python {flag}: program point {bad and bad[0]}: reference interpreter expects {bad}, real {bad and gi.get(bad[0])}", mechanism="optimized-interpreter-bindings-differ")
                return
            if o["after"]:
                rec.violation("lifetime", c2, f"under python {flag}: after the program, top-level print_bindings() prints {o['after']!r}", mechanism="optimized-interpreter-context-left-open")
                return
    finally:
        os.unlink(jf)


_ACCESSOR_SRC = '''
import contextlib, io
import numpy as np
import jaxtyping
from jaxtyping import Float, jaxtyped
N = np.ndarray
LOG = []
def A(n):
    return np.zeros((n,), dtype="float32")
def seen():
    buf = io.StringIO()
    with contextlib.redirect_stdout(buf):
        jaxtyping.print_bindings()
    return buf.getvalue()
class K:
    def __init__(self):
        self._v = A(5)
    def _get(self) -> Float[N, "n"]:
        LOG.append(("get", seen()))
        isinstance(A(5), Float[N, "n"])
        return self._v
    def _set(self, value: Float[N, "n"]):
        LOG.append(("set", seen()))
        isinstance(A(5), Float[N, "k"])
        self._v = value
    def _del(self):
        LOG.append(("del-before", seen()))
        isinstance(A(6), Float[N, "n"])
        LOG.append(("del-after", seen()))
    x = jaxtyped(typechecker=CHECKER)(property(_get, _set, _del))
def scenario():
    del LOG[:]
    k = K()
    with jaxtyped("context"):
        isinstance(A(3), Float[N, "n"])          # the caller's scope: n=3
        before = seen()
        k.x                                      # getter binds n=5 in ITS scope
        LOG.append(("caller-after-get", seen() == before))
        k.x = A(5)                               # setter: value n=5, and binds k=5
        LOG.append(("caller-after-set", seen() == before))
        del k.x                                  # deleter binds n=6
        LOG.append(("caller-after-del", seen() == before))
        LOG.append(("caller-n-still-3", bool(isinstance(A(3), Float[N, "n"])), bool(isinstance(A(5), Float[N, "n"]))))
    return list(LOG)
'''


def arm_property_accessors(rec):
    """every accessor of a decorated property (getter, setter, deleter) is a call with a scope of its own: it starts
    without the caller's bindings and takes its own away with it"""
    import beartype
    import typeguard

    from .. import real

    for cname, tc in (("typeguard", typeguard.typechecked), ("beartype", beartype.beartype)):
        ns = {"CHECKER": tc}
        real.exec_src(_ACCESSOR_SRC, ns)
        try:
            log = ns["scenario"]()
        except BaseException as e:  # noqa
            rec.violation("lifetime", {"property_accessors": cname}, f"[{cname}] getter/setter/deleter of a decorated property called from a scope that has n=3: raised {type(e).__name__}: {str(e)[:200]}", mechanism="property-accessor-raises-" + type(e).__name__)
            return
        rec.count("property_accessors.scenarios")
        rec.case(("property-accessors", cname), True)
        d = {}
        for entry in log:
            d.setdefault(entry[0], []).append(entry[1:])
        problems = []
        for acc in ("get", "set", "del-before"):
            for (text,) in d.get(acc, []):
                if "n=3" in text:
                    problems.append(f"the {acc.split('-')[0]}ter saw the caller's n=3 when it started")
        if not d.get("get") or not d.get("set") or not d.get("del-before"):
            problems.append(f"accessors did not all run: {sorted(d)}")
        for (text,) in d.get("del-after", []):
            if "n=6" not in text:
                problems.append("the deleter's own binding n=6 is not visible inside the deleter")
        for key in ("caller-after-get", "caller-after-set", "caller-after-del"):
            if d.get(key) != [(True,)]:
                problems.append(f"{key}: the caller's bindings changed")
        if d.get("caller-n-still-3") != [(True, False)]:
            problems.append(f"afterwards the caller's n answers {d.get('caller-n-still-3')} for sizes 3 and 5")
        if problems:
            rec.violation("lifetime", {"property_accessors": cname, "log": [list(map(str, e)) for e in log]}, f"[{cname}] decorated property accessed from a scope holding n=3: " + "; ".join(problems), mechanism="property-accessor-shares-the-callers-scope")
            return


def arm_stack_exhaustion(rec):
    """scopes and decorated calls ENTERED at every distance (1..79 frames) from the recursion limit, in a fresh process
    (jtv/checks/c05_stack_child.py): the entry succeeds or dies with RecursionError; afterwards, at ordinary depth,
    checks outside every scope are stateless and a fresh scope starts and ends empty"""
    import subprocess

    root = os.path.dirname(os.path.dirname(os.path.dirname(os.path.abspath(__file__))))
    env = dict(os.environ)
    env["PYTHONPATH"] = os.pathsep.join([os.environ.get("JTV_REPO", "/repo"), root])
    r = subprocess.run([sys.executable, os.path.join(root, "jtv", "checks", "c05_stack_child.py"), "80"], capture_output=True, text=True, env=env, timeout=900, cwd=root)
    try:
        res = json.loads(r.stdout.strip().splitlines()[-1])
    except Exception:
        rec.inconclusive.append(f"stack-exhaustion child failed: rc={r.returncode} {r.stderr[-400:]}")
        return
    for c in res["cases"]:
        rec.count("stack_exhaustion.entries")
        rec.count("stack_exhaustion.entries_that_died_with_RecursionError", int(c["entry"] == "RecursionError"))
        rec.case(("stack-exhaustion", c["kind"], c["margin"]), c["entry"] == "RecursionError")
        if c["entry"] not in ("entered", "RecursionError"):
            rec.violation("stack-exhaustion", {"stack_exhaustion": c}, f"{c['kind']} entered {c['margin']} frames below the recursion limit ended with {c['entry']}", mechanism="entry-near-recursion-limit-" + c["entry"])
            return
        if c["toplevel"] != [True, True]:
            rec.violation("lifetime", {"stack_exhaustion": c}, f"{c['kind']} entered {c['margin']} frames below the recursion limit ({c['entry']}); back at ordinary depth and outside every scope, arrays of size 4 and 5 against Float[ndarray, 'jtvn'] give {c['toplevel']} - a scope is still open", mechanism="context-left-open-after-RecursionError-on-entry")
            return
        if c["fresh_scope"] != [True, True, False]:
            rec.violation("lifetime", {"stack_exhaustion": c}, f"{c['kind']} entered {c['margin']} frames below the recursion limit ({c['entry']}); a fresh scope afterwards answers {c['fresh_scope']} for sizes 6, 6, 7 (expected [True, True, False])", mechanism="fresh-scope-not-empty-after-RecursionError-on-entry")
            return


def run_shard(rec, seed, shard, tier):
    global _OTHER_INTERPRETER
    warnings.filterwarnings("ignore")
    _TIER[0] = tier
    _OTHER_INTERPRETER = [] if shard["i"] % 4 in (0, 2) else None
    if shard["i"] == 1:
        arm_stack_exhaustion(rec)
    if shard["i"] == 2:
        arm_property_accessors(rec)
    if shard["i"] % 4 == 3:
        from .. import real

        real.hostile_prelude(rec)  # a past: checks made outside every scope are stateless whatever came before
        real.toplevel_probes(rec, None, "after the hostile prelude")
        real.temporaries_probe(rec, "C05")
    for k in range(CASES[tier]):
        key = f"{seed}/C05/{shard['i']}/{k}"
        run_program(rec, random.Random(key), key)
    if _OTHER_INTERPRETER:
        run_optimized(rec, _OTHER_INTERPRETER, "-O" if shard["i"] % 4 == 0 else "-OO")
    _OTHER_INTERPRETER = None


def replay(rec, case):
    warnings.filterwarnings("ignore")
    run_program(rec, random.Random(case["rngkey"]), case["rngkey"])

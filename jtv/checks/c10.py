"""C10 — the import hook only adds decorators: everything else in the module is untouched.

Translation validation: for each module that compiles on its own, the tree the real loader
hands to compile() is captured, the three kinds of additions are removed, and the result
must be identical (ast.dump with attributes) to the original tree. A dynamic arm executes
generated modules plain and hooked and compares output, exceptions, traceback line numbers
and line events.
"""

from __future__ import annotations

import ast
import copy
import glob
import importlib
import inspect
import io
import os
import random
import shutil
import sys
import sysconfig
import tempfile
import traceback
import warnings

from ..gen import modules as GM

LEVEL = "translation_validation"
TECHNIQUE = "runtime monitoring / translation validation: the AST captured at the real loader's compile() call is compared with the original AST after removing exactly the three documented additions, over a corpus (stdlib + site-packages) and generated modules; dynamic arm compares plain vs hooked execution (stdout, exceptions, traceback line numbers, line events, code-object table); modules called again after uninstall(); a real IPython InteractiveShell with reload; a quarter of the shards compile with warnings turned into errors; several modules of one hook compiled concurrently in threads and compared with the same modules compiled alone"
LEVEL_TEXT = (
    "Every corpus file that compiles on its own (quick: a seeded sample; thorough: the whole stdlib and site-packages, "
    "~10k files) and every generated module is validated individually: equality of ast.dump(include_attributes=True) after "
    "removing the additions, structure of each added decorator, counts, __future__ flags, docstring, code-object table."
)
LEVEL_NOTE = "Trusts Python's ast/compile; constructs absent from the corpus and the generator are not covered."
RULE = (
    "programs = modules validated (corpus precondition: the original compiles); a disagreement = any difference after "
    "removing the additions, a malformed/misplaced addition, a count mismatch, a compile failure of the transformed tree, "
    "or a behavioural difference in the dynamic arm. distinct by file path / generated source."
)
ASSUMPTIONS = ["files consisting only of a docstring / constant expressions / __future__ imports get no import: accepted iff they got no decorator either"]
NSHARDS = 16
SHARD_TIMEOUT = {"quick": 900, "thorough": 3600}
CORPUS_SAMPLE = {"quick": 900, "thorough": None}
GENERATED = {"quick": 40, "thorough": 600}  # per shard
DYNAMIC = {"quick": 12, "thorough": 150}  # per shard


def shards(tier):
    return [{"i": i} for i in range(NSHARDS)]


def required_counters(tier):
    return {
        "modules.transformed_with_warnings_as_errors": 100, "concurrent_transform.modules": 50, "modules.validated": 800,
        "decorators.function": 5000,
        "decorators.class": 500,
        "async_defs_untouched": 20,
        "nested_defs": 500,
        "modules.with_future": 10,
        "modules.with_docstring": 200,
        "modules.without_import": 1,
        "dynamic.runs": 100,
        "dynamic.tracebacks_compared": 20,
        "generated.modules": 300, "cells.through_one_transformer": 100, "compiled_code_decorator_counts_compared": 800, "dynamic.reruns_after_uninstall": 20, "ipython.cells": 40, "deep_modules.validated": 40,
    }


def corpus_files():
    roots = [sysconfig.get_paths()["stdlib"], sysconfig.get_paths()["purelib"]]
    out = []
    for r in roots:
        for p in glob.glob(os.path.join(r, "**", "*.py"), recursive=True):
            if os.sep + "site-packages" + os.sep in p and r == roots[0]:
                continue
            out.append(p)
    return sorted(set(out))


class Capture:
    """wraps jaxtyping._import_hook._call_with_frames_removed to see what the loader compiles"""

    def __init__(self):
        from jaxtyping import _import_hook as H

        self.H = H
        self.orig = H._call_with_frames_removed
        self.trees = []

    def __enter__(self):
        def spy(f, *args, **kwargs):
            if args and isinstance(args[0], ast.AST):
                self.trees.append(args[0])
            return self.orig(f, *args, **kwargs)

        self.H._call_with_frames_removed = spy
        return self

    def __exit__(self, *a):
        self.H._call_with_frames_removed = self.orig


FUTURE_MASK = 0
for _n in dir(__import__("__future__")):
    _f = getattr(__import__("__future__"), _n)
    if hasattr(_f, "compiler_flag"):
        FUTURE_MASK |= _f.compiler_flag


def code_table(code):
    out = []
    stack = [code]
    while stack:
        c = stack.pop()
        # class bodies (no CO_OPTIMIZED) are listed without their first line: for a decorated class
        # it is the line of the outermost decorator, i.e. of the *added* one, whose position the
        # property leaves open (counted as an open corner by the caller, not judged)
        is_class_body = (not (c.co_flags & 0x1) and c.co_name != "<module>") or c.co_name.startswith("<generic parameters of")
        out.append((c.co_qualname, -1 if is_class_body else c.co_firstlineno, c.co_flags & FUTURE_MASK, c.co_argcount, c.co_kwonlyargcount))
        for k in c.co_consts:
            if hasattr(k, "co_code"):
                stack.append(k)
    return sorted(out)


def safe_dump(tree):
    """ast.dump(include_attributes=True); for trees nested too deeply for its recursion, an equivalent flat rendering:
    every node in `ast.walk` order with its type, position attributes and all non-node field values"""
    try:
        return ast.dump(tree, include_attributes=True)
    except RecursionError:
        out = []
        for n in ast.walk(tree):
            fields = []
            for f, v in ast.iter_fields(n):
                if isinstance(v, ast.AST):
                    fields.append((f, "<node>"))
                elif isinstance(v, list):
                    fields.append((f, [("<node>" if isinstance(x, ast.AST) else repr(x)) for x in v]))
                else:
                    fields.append((f, repr(v)))
            out.append((type(n).__name__, tuple(getattr(n, a, None) for a in ("lineno", "col_offset", "end_lineno", "end_col_offset")), fields))
        return repr(out)


def count_jaxtyped_loads(code):
    """number of `.jaxtyped` attribute loads in a code object tree: each added decorator contributes one.
    Observed on the loader's OUTPUT, so it does not depend on seeing the transformed tree."""
    import dis

    n = 0
    stack = [code]
    while stack:
        c = stack.pop()
        for ins in dis.get_instructions(c):
            if ins.opname in ("LOAD_ATTR", "LOAD_METHOD") and ins.argval == "jaxtyped":
                n += 1
        stack.extend(k for k in c.co_consts if hasattr(k, "co_code"))
    return n


def is_hook_decorator(node, hash_):
    """jaxtyping.jaxtyped(typechecker=jaxtyping._import_hook.Typechecker.lookup['<hash>'])"""
    try:
        ok = isinstance(node, ast.Call) and not node.args and len(node.keywords) == 1 and node.keywords[0].arg == "typechecker"
        f = node.func
        ok = ok and isinstance(f, ast.Attribute) and f.attr == "jaxtyped" and isinstance(f.value, ast.Name) and f.value.id == "jaxtyping"
        v = node.keywords[0].value
        ok = ok and isinstance(v, ast.Subscript) and isinstance(v.slice, ast.Constant) and v.slice.value == hash_
        chain = []
        x = v.value
        while isinstance(x, ast.Attribute):
            chain.append(x.attr)
            x = x.value
        ok = ok and isinstance(x, ast.Name) and x.id == "jaxtyping" and chain == ["lookup", "Typechecker", "_import_hook"]
        return bool(ok)
    except Exception:
        return False


WARNINGS_AS_ERRORS = [False]


def validate(rec, source, path, tc_string, label):
    """-> True if validated. Precondition (checked): the original compiles."""
    from jaxtyping import _import_hook as H

    # `source` may be bytes (corpus files: the loader decodes them itself, honouring coding cookies) or str
    try:
        with warnings.catch_warnings():
            if WARNINGS_AS_ERRORS[0]:
                warnings.simplefilter("error")  # (a SyntaxWarning of the module itself then fails the precondition)
            orig_tree = compile(source, path, "exec", ast.PyCF_ONLY_AST, dont_inherit=True)
            orig_code = compile(orig_tree, path, "exec", dont_inherit=True)
    except (SyntaxError, ValueError, RecursionError, MemoryError, OverflowError, Warning):
        rec.count("corpus.original_does_not_compile")
        return None
    orig_dump = safe_dump(orig_tree)
    tc = H.Typechecker(tc_string)
    loader = H._JaxtypingLoader("jtv_c10_mod", path, typechecker=tc)
    case = {"path": label, "typechecker": tc_string}
    with Capture() as cap:
        harness_limit = sys.getrecursionlimit()
        try:
            # the loader runs with the interpreter's DEFAULT recursion limit (the harness raises it for its own
            # tree dumps; a user's import does not)
            sys.setrecursionlimit(1000 + len(inspect.stack(0)))
            try:
                with warnings.catch_warnings():
                    if WARNINGS_AS_ERRORS[0]:
                        # the program runs with warnings turned into errors (python -W error, pytest's
                        # filterwarnings = error): the original compiled under that regime, so must the result
                        warnings.simplefilter("error")
                        rec.count("modules.transformed_with_warnings_as_errors")
                    new_code = loader.source_to_code(source.encode("utf-8") if isinstance(source, str) else source, path)
            finally:
                sys.setrecursionlimit(harness_limit)
        except BaseException as e:  # noqa
            rec.violation("compile", case, f"{label}: original compiles but the hooked compilation raised {type(e).__name__}: {str(e)[:200]}", mechanism="transformed-does-not-compile-" + type(e).__name__)
            return False
    on = sum(isinstance(n, ast.FunctionDef) for n in ast.walk(orig_tree))
    oc = sum(isinstance(n, ast.ClassDef) for n in ast.walk(orig_tree))
    added = count_jaxtyped_loads(new_code) - count_jaxtyped_loads(orig_code)
    rec.count("compiled_code_decorator_counts_compared")
    if added != on + oc:
        # the compiler drops unreachable definitions (`if 0:`) and duplicates `finally:` bodies: the number to expect
        # in BYTECODE is what the harness's own ten-line rendition of the three documented additions compiles to
        try:
            ref = compile(source, path, "exec", ast.PyCF_ONLY_AST, dont_inherit=True)
            for n in ast.walk(ref):
                if isinstance(n, (ast.FunctionDef, ast.ClassDef)):
                    d = ast.parse("jaxtyping.jaxtyped(typechecker=None)", mode="eval").body
                    n.decorator_list.append(d) if isinstance(n, ast.FunctionDef) else n.decorator_list.insert(0, d)
            ast.fix_missing_locations(ref)
            expected_loads = count_jaxtyped_loads(compile(ref, path, "exec", dont_inherit=True)) - count_jaxtyped_loads(orig_code)
        except Exception:
            expected_loads = None
        if expected_loads is not None and expected_loads == added:
            rec.count("compiled_code_counts_explained_by_compiler")
            added = on + oc
    if added != on + oc:
        rec.violation("decorator-count", case, f"{label}: {on} defs + {oc} classes in the source but the code object the loader produced evaluates {added} added jaxtyped decorators", mechanism="compiled-code-misses-decorators" if added < on + oc else "compiled-code-has-extra-decorators")
        return False
    trees = [t for t in cap.trees if isinstance(t, ast.Module)]
    if not trees:
        rec.count("capture_point_missing")  # white-box tree comparison impossible; the code-level oracles above/below decide
        if code_table(new_code) != code_table(orig_code):
            rec.violation("code-table", case, f"{label}: compiled code objects differ", mechanism="code-table-differs")
            return False
        return True
    T = trees[-1]
    hash_ = tc.get_hash()
    rec.count("modules.validated")
    # ---- remove the additions from a copy
    T2 = copy.deepcopy(T)
    nfun = ncls = nasync = nnested = 0
    bad = []

    def walk(node, depth):
        nonlocal nfun, ncls, nasync, nnested
        for child in ast.iter_child_nodes(node):
            if isinstance(child, ast.FunctionDef):
                nfun += 1
                if depth:
                    nnested += 1
                if not child.decorator_list or not is_hook_decorator(child.decorator_list[-1], hash_):
                    bad.append(f"def {child.name} (line {child.lineno}): innermost decorator is not the hook's")
                else:
                    d = child.decorator_list.pop()
                    if (d.lineno, d.col_offset) != (child.lineno, child.col_offset):
                        bad.append(f"def {child.name}: added decorator located at {d.lineno}:{d.col_offset}, def at {child.lineno}:{child.col_offset}")
                walk(child, depth + 1)
            elif isinstance(child, ast.ClassDef):
                ncls += 1
                if not child.decorator_list or not is_hook_decorator(child.decorator_list[0], hash_):
                    bad.append(f"class {child.name} (line {child.lineno}): outermost decorator is not the hook's")
                else:
                    child.decorator_list.pop(0)
                walk(child, depth + 1)
            elif isinstance(child, ast.AsyncFunctionDef):
                nasync += 1
                if any(is_hook_decorator(d, hash_) for d in child.decorator_list):
                    bad.append(f"async def {child.name}: got a hook decorator")
                walk(child, depth + 1)
            else:
                walk(child, depth)

    walk(T2, 0)
    # the import: right after the docstring / constant expressions / __future__ imports
    k = 0
    body = T2.body
    while k < len(body) and ((isinstance(body[k], ast.ImportFrom) and body[k].module == "__future__") or (isinstance(body[k], ast.Expr) and isinstance(body[k].value, ast.Constant))):
        k += 1
    has_import = k < len(body) and isinstance(body[k], ast.Import) and len(body[k].names) == 1 and body[k].names[0].name == "jaxtyping" and body[k].names[0].asname is None
    if has_import:
        # it must be the ADDED one: the original has no such statement at this index, or the next one is the original's
        del body[k]
    else:
        if k < len(orig_tree.body):
            bad.append("no `import jaxtyping` after the docstring/__future__ prefix")
        elif nfun or ncls:
            bad.append("module got decorators but no import")
        else:
            rec.count("modules.without_import")
    rec.count("decorators.function", nfun)
    rec.count("decorators.class", ncls)
    rec.count("async_defs_untouched", nasync)
    rec.count("nested_defs", nnested)
    if any(isinstance(s, ast.ImportFrom) and s.module == "__future__" for s in orig_tree.body):
        rec.count("modules.with_future")
    if ast.get_docstring(orig_tree) is not None:
        rec.count("modules.with_docstring")
    if bad:
        rec.violation("additions", case, f"{label}: " + "; ".join(bad[:4]), mechanism="addition-malformed-or-misplaced:" + bad[0].split(":")[-1].strip()[:40])
        return False
    new_dump = safe_dump(T2)
    if new_dump != orig_dump:
        # locate first difference for the witness
        i = next((j for j, (a, b) in enumerate(zip(orig_dump, new_dump)) if a != b), min(len(orig_dump), len(new_dump)))
        rec.violation("tree-differs", case, f"{label}: after removing the additions the tree differs from the original near: ...{orig_dump[max(0, i - 80):i + 80]}... vs ...{new_dump[max(0, i - 80):i + 80]}...", mechanism="tree-differs-beyond-additions")
        return False
    # counts against the original
    if (on, oc) != (nfun, ncls):
        rec.violation("counts", case, f"{label}: {on} defs / {oc} classes in the original, {nfun}/{ncls} decorated", mechanism="count-mismatch")
        return False
    # compiled artefact: code-object table (names, first lines, __future__ flags) and docstring
    if code_table(new_code) != code_table(orig_code):
        a, b = code_table(orig_code), code_table(new_code)
        d = [x for x in a if x not in b][:2] + [x for x in b if x not in a][:2]
        rec.violation("code-table", case, f"{label}: compiled code objects differ (qualname, firstlineno, future flags, argcounts): {d}", mechanism="code-table-differs")
        return False
    doc_o = ast.get_docstring(orig_tree, clean=False)
    doc_n = new_code.co_consts[0] if (doc_o is not None and new_code.co_consts) else None
    if doc_o is not None and doc_n != doc_o:
        rec.violation("docstring", case, f"{label}: module docstring changed", mechanism="docstring-lost")
        return False
    return True


def full_code_table(code):
    """every code object with its first line and its complete (start, end, line) table"""
    out = []
    stack = [code]
    while stack:
        c = stack.pop()
        out.append((c.co_qualname, c.co_firstlineno, tuple(c.co_lines()), c.co_code))
        for k in c.co_consts:
            if hasattr(k, "co_code"):
                stack.append(k)
    return sorted(out, key=lambda t: (t[0], t[1]))


def arm_concurrent_transform(rec, rng):
    """several modules of ONE hook (one Typechecker object, as install_import_hook shares it) are compiled at the same
    time in different threads - what an application that imports its plug-ins from a thread pool does.  Every result is
    byte-for-byte what the same module gives when compiled alone."""
    import threading

    from jaxtyping import _import_hook as H

    tc = H.Typechecker("typeguard.typechecked")
    sources = []
    for i in range(6):
        src = GM.gen_static_module(rng)
        try:
            compile(src, f"<conc {i}>", "exec", dont_inherit=True)
        except Exception:  # noqa
            continue
        # push the definitions to very different line numbers in each module
        sources.append(("\n" * rng.randrange(0, 400)) + src)
    if len(sources) < 3:
        return
    loaders = [H._JaxtypingLoader(f"jtv_conc_{i}", f"/jtv/conc_{i}.py", typechecker=tc) for i in range(len(sources))]
    alone = [full_code_table(ld.source_to_code(src.encode(), ld.path)) for ld, src in zip(loaders, sources)]
    old = sys.getswitchinterval()
    sys.setswitchinterval(1e-6)
    try:
        for rnd in range(8):
            results = [None] * len(sources)
            start = threading.Barrier(len(sources))

            def work(i):
                try:
                    start.wait(10)
                    results[i] = ("ok", full_code_table(loaders[i].source_to_code(sources[i].encode(), loaders[i].path)))
                except BaseException as e:  # noqa
                    results[i] = ("exc", f"{type(e).__name__}: {str(e)[:120]}")

            ts = [threading.Thread(target=work, args=(i,)) for i in range(len(sources))]
            for t in ts:
                t.start()
            for t in ts:
                t.join(120)
            rec.count("concurrent_transform.rounds")
            for i, r in enumerate(results):
                rec.count("concurrent_transform.modules")
                rec.case(("concurrent-transform", rnd, i), True)
                if r is None or r[0] == "exc":
                    rec.violation("compile", {"concurrent_transform": True, "round": rnd}, f"module {i} of {len(sources)} compiled concurrently through one hook: {r and r[1]} (alone it compiles)", mechanism="concurrent-transform-raises")
                    return
                if r[1] != alone[i]:
                    diff = next(((a[0], a[1], b[1]) for a, b in zip(alone[i], r[1]) if a != b), None)
                    rec.violation("tree-differs", {"concurrent_transform": True, "round": rnd}, f"module {i} of {len(sources)} compiled concurrently through one hook differs from the same module compiled alone (first differing code object: {diff})", mechanism="concurrent-transform-differs-from-alone")
                    return
    finally:
        sys.setswitchinterval(old)


def validate_reused_transformer(rec, sources, tc_string):
    """IPython keeps ONE JaxtypingTransformer in shell.ast_transformers and calls .visit() on every cell:
    each cell must get the complete set of additions, whatever was transformed before"""
    from jaxtyping import _import_hook as H

    try:
        tr = H.JaxtypingTransformer(typechecker=H.Typechecker(tc_string))
    except Exception:
        return
    for ci, src in enumerate(sources):
        try:
            orig = ast.parse(src)
            compile(orig, "<cell>", "exec", dont_inherit=True)
        except (SyntaxError, ValueError):
            continue
        T = tr.visit(ast.parse(src))
        ast.fix_missing_locations(T)
        rec.count("cells.through_one_transformer")
        rec.case(("cell", ci, src), True)
        case = {"cell_index": ci, "source": src[:1500], "typechecker": tc_string}
        ndefs = sum(isinstance(n, (ast.FunctionDef, ast.ClassDef)) for n in ast.walk(orig))
        body = T.body
        k = 0
        while k < len(body) and ((isinstance(body[k], ast.ImportFrom) and body[k].module == "__future__") or (isinstance(body[k], ast.Expr) and isinstance(body[k].value, ast.Constant))):
            k += 1
        has_import = k < len(body) and isinstance(body[k], ast.Import) and body[k].names[0].name == "jaxtyping"
        if ndefs and not has_import:
            rec.violation("additions", case, f"cell #{ci} run through an already-used transformer: {ndefs} definitions decorated but no `import jaxtyping` inserted", mechanism="reused-transformer-omits-import")
            return
        try:
            compile(T, "<cell>", "exec", dont_inherit=True)
        except Exception as e:  # noqa
            rec.violation("compile", case, f"cell #{ci}: transformed cell does not compile: {type(e).__name__}: {e}", mechanism="reused-transformer-cell-does-not-compile")
            return


def ipython_arm(rec, rng):
    """the real magic in a real InteractiveShell: extension loaded, typechecker chosen, chosen again, extension
    RE-loaded (%reload_ext / a second load_ipython_extension), typechecker chosen again - after every step a cell
    passed through shell.transform_ast carries exactly ONE import and ONE decorator per def / class"""
    try:
        from IPython.core.interactiveshell import InteractiveShell
    except Exception:
        return
    import jaxtyping._ipython_extension as X

    shell = InteractiveShell.instance()
    steps = [
        ("load_ext", lambda: shell.run_line_magic("load_ext", "jaxtyping")),
        ("choose", lambda: shell.run_line_magic("jaxtyping.typechecker", "typeguard.typechecked")),
        ("choose-again", lambda: shell.run_line_magic("jaxtyping.typechecker", "beartype.beartype")),
        ("reload_ext", lambda: shell.run_line_magic("reload_ext", "jaxtyping")),
        ("choose-after-reload", lambda: shell.run_line_magic("jaxtyping.typechecker", "typeguard.typechecked")),
        ("load_ipython_extension-again", lambda: X.load_ipython_extension(shell)),
        ("choose-after-second-load", lambda: shell.run_line_magic("jaxtyping.typechecker", "beartype.beartype")),
    ]
    chosen = False
    for name, do in steps:
        do()
        chosen = chosen or name.startswith("choose")
        for ci in range(3):
            src = GM.gen_static_module(rng)
            try:
                orig = ast.parse(src)
                compile(orig, "<cell>", "exec", dont_inherit=True)
            except (SyntaxError, ValueError):
                continue
            T = shell.transform_ast(ast.parse(src))
            rec.count("ipython.cells")
            rec.case(("ipython", name, src), True)
            case = {"ipython_step": name, "source": src[:1500]}

            def is_jt(d):
                return isinstance(d, ast.Call) and isinstance(d.func, ast.Attribute) and d.func.attr == "jaxtyped" and isinstance(d.func.value, ast.Name) and d.func.value.id == "jaxtyping"

            n_imp_o = sum(isinstance(n, ast.Import) and any(a.name == "jaxtyping" for a in n.names) for n in ast.walk(orig))
            n_imp = sum(isinstance(n, ast.Import) and any(a.name == "jaxtyping" for a in n.names) for n in ast.walk(T)) - n_imp_o
            defs_o = [n for n in ast.walk(orig) if isinstance(n, (ast.FunctionDef, ast.ClassDef))]
            defs_t = [n for n in ast.walk(T) if isinstance(n, (ast.FunctionDef, ast.ClassDef))]
            per_def = sorted({sum(is_jt(d) for d in n.decorator_list) - 0 for n in defs_t})
            want = [1] if (chosen and defs_o) else ([0] if defs_o else [])
            want_imp = 1 if (chosen and defs_o) else n_imp  # a cell without definitions may or may not get the import
            if len(defs_t) != len(defs_o) or per_def != want or (defs_o and chosen and n_imp != 1):
                rec.violation("ipython-additions", case, f"after step {name!r}: cell with {len(defs_o)} definitions got {n_imp} added `import jaxtyping` and {per_def} jaxtyped decorators per definition (expected {want_imp} and {want})", mechanism="ipython-cell-additions-after-" + name.split("-")[0])
                return
    shell.ast_transformers = [t for t in shell.ast_transformers if "axtyping" not in type(t).__name__]


# ------------------------------------------------------------------------------ dynamic arm
SPY_MODULE = "def ident(fn, *args, **kwargs):\n    return fn\n"


def run_module(path, modname, hooked, scratch):
    """execute the module file; -> observation dict"""
    import jaxtyping

    events = []
    out = io.StringIO()

    def tracer(frame, event, arg):
        if frame.f_code.co_filename == path:
            if event == "line":
                events.append((frame.f_code.co_qualname, frame.f_lineno))
            return tracer
        return None

    for m in [m for m in sys.modules if m == modname]:
        del sys.modules[m]
    obs = {}
    old_stdout = sys.stdout
    sys.stdout = out
    hook = jaxtyping.install_import_hook(modname, "jtv_c10_spy.ident") if hooked else None
    try:
        sys.settrace(tracer)
        try:
            mod = importlib.import_module(modname)
            obs["exc"] = None
        except BaseException as e:  # noqa
            tb = [fs.lineno for fs in traceback.extract_tb(e.__traceback__) if fs.filename == path]
            obs["exc"] = (type(e).__name__, str(e)[:200], tb)
        finally:
            sys.settrace(None)
    finally:
        if hook is not None:
            hook.uninstall()
        sys.modules.pop(modname, None)
        # the module lives on after the import (and after the hook is gone): its functions are called again
        try:
            fn = getattr(sys.modules.get(modname) or locals().get("mod"), "rerun", None)
            if fn is not None:
                sys.settrace(tracer)
                try:
                    obs["rerun"] = ("ret", repr(fn()))
                except BaseException as e:  # noqa
                    tb = [fs.lineno for fs in traceback.extract_tb(e.__traceback__) if fs.filename == path]
                    obs["rerun"] = ("exc", type(e).__name__, str(e)[:200], tb)
                finally:
                    sys.settrace(None)
        finally:
            sys.stdout = old_stdout
    obs["stdout"] = out.getvalue()
    obs["events"] = events
    return obs


def header_lines(tree):
    """lines occupied by decorators + def/class headers (events there are not compared)"""
    lines = set()
    for n in ast.walk(tree):
        if isinstance(n, (ast.FunctionDef, ast.AsyncFunctionDef, ast.ClassDef)):
            start = min([d.lineno for d in n.decorator_list] + [n.lineno])
            end = n.body[0].lineno - 1 if n.body[0].lineno > n.lineno else n.lineno
            lines.update(range(start, max(end, n.lineno) + 1))
    return lines


def dynamic(rec, rng, scratch, idx):
    src = GM.gen_runnable_module(rng)
    modname = f"jtv_c10_dyn_{os.getpid()}_{idx}"
    path = os.path.join(scratch, modname + ".py")
    with open(path, "w") as f:
        f.write(src)
    tree = ast.parse(src)
    skip = header_lines(tree)
    plain = run_module(path, modname, False, scratch)
    hooked = run_module(path, modname, True, scratch)
    rec.count("dynamic.runs")
    rec.case(("dyn", src), nontrivial=True)
    case = {"source": src}
    if plain["exc"] is not None:
        rec.count("dynamic.tracebacks_compared")
    # the added `import jaxtyping` carries no location of its own, and the sub-expressions of
    # the added decorators keep the line of the template they were parsed from: both are
    # reported at line 1. Events of line 1 are "events of the added expressions" and are left
    # out on both sides.
    filt = lambda ev: [e for e in ev if e[1] not in skip and e[1] != 1]
    if "rerun" in plain:
        rec.count("dynamic.reruns_after_uninstall")
    for key in ("stdout", "exc", "rerun"):
        if plain.get(key) != hooked.get(key):
            rec.violation("behaviour", case, f"hooked module differs in {key}: plain {plain.get(key)!r} vs hooked {hooked.get(key)!r}", mechanism="dynamic-" + key + "-differs")
            return
    if filt(plain["events"]) != filt(hooked["events"]):
        a, b = filt(plain["events"]), filt(hooked["events"])
        i = next((j for j, (x, y) in enumerate(zip(a, b)) if x != y), min(len(a), len(b)))
        rec.violation("behaviour", case, f"line events differ at #{i}: plain {a[i:i + 3]} vs hooked {b[i:i + 3]}", mechanism="dynamic-line-events-differ")


def run_shard(rec, seed, shard, tier):
    warnings.filterwarnings("ignore")
    WARNINGS_AS_ERRORS[0] = shard["i"] % 4 == 3
    sys.setrecursionlimit(30000)
    files = corpus_files()
    rec.info["corpus_size"] = len(files) if shard["i"] == 0 else 0
    rng = random.Random(f"{seed}/C10/corpus")
    if CORPUS_SAMPLE[tier] is not None and len(files) > CORPUS_SAMPLE[tier]:
        files = rng.sample(files, CORPUS_SAMPLE[tier])
    tcs = ["typeguard.typechecked", "beartype.beartype", None, "some.module.fn"]
    for idx, p in enumerate(files):
        if idx % NSHARDS != shard["i"]:
            continue
        try:
            with open(p, "rb") as f:
                data = f.read()
            importlib.util.decode_source(data)
        except Exception:
            rec.count("corpus.undecodable")
            continue
        r = validate(rec, data, p, tcs[idx % len(tcs)], p)  # raw bytes: exactly what the loader is given
        rec.case(("file", p), nontrivial=bool(r))
    for k in range(GENERATED[tier]):
        g = random.Random(f"{seed}/C10/{shard['i']}/gen{k}")
        src = GM.gen_static_module(g)
        r = validate(rec, src, f"<generated {shard['i']}/{k}>", tcs[k % len(tcs)], f"generated:{seed}/C10/{shard['i']}/gen{k}")
        rec.case(("gen", src), nontrivial=bool(r))
        if r is None:
            rec.count("generated.not_compiling_skipped")  # precondition of the property: the original compiles
        else:
            rec.count("generated.modules")
    # machine-generated shapes: very long expressions and statement ladders that compile fine but are nested deeper
    # than a recursive tree walk can go
    g = random.Random(f"{seed}/C10/{shard['i']}/deep")
    for kind in ("sum", "ladder", "literal", "chain", "ladder-with-defs"):
        n = g.randrange(520, 1100)
        head = "def before(x: int) -> int:\n    return x\n\nclass K:\n    def m(self):\n        return 1\n\n"
        tail = "\ndef after(y):\n    def inner(z):\n        return z\n    return inner(y)\n"
        if kind == "sum":
            body = "BIG = " + " + ".join(["1"] * n) + "\n"
        elif kind == "ladder":
            body = "x = 0\nif x == 1:\n    pass\n" + "".join(f"elif x == {i}:\n    pass\n" for i in range(2, n // 2))
        elif kind == "ladder-with-defs":
            body = "x = 0\nif x == 1:\n    pass\n" + "".join((f"elif x == {i}:\n    def f_{i}(a):\n        return a\n" if i % 50 == 0 else f"elif x == {i}:\n    pass\n") for i in range(2, n // 2))
        elif kind == "literal":
            d = n // 4
            body = "NEST = " + "[" * d + "0" + "]" * d + "\n"
        else:
            body = "class A:\n    b = None\nA.b = A\nC = A" + ".b" * (n // 2) + "\n"
        src = head + body + tail
        r = validate(rec, src, f"<deep {kind} {n}>", tcs[0], f"deep:{kind}:{n}")
        rec.case(("deep", kind, n), nontrivial=bool(r))
        if r is None:
            rec.count("deep_modules.not_compiling_skipped")
        else:
            rec.count("deep_modules.validated")
    for k in range(max(2, GENERATED[tier] // 8)):
        g = random.Random(f"{seed}/C10/{shard['i']}/cells{k}")
        validate_reused_transformer(rec, [GM.gen_static_module(g) for _ in range(3)], tcs[k % 2])
    if shard["i"] % 4 == 1:
        ipython_arm(rec, random.Random(f"{seed}/C10/{shard['i']}/ipython"))
    if shard["i"] % 4 == 2:
        arm_concurrent_transform(rec, random.Random(f"{seed}/C10/{shard['i']}/concurrent"))
    scratch = tempfile.mkdtemp(prefix="jtv_c10_")
    try:
        with open(os.path.join(scratch, "jtv_c10_spy.py"), "w") as f:
            f.write(SPY_MODULE)
        sys.path.insert(0, scratch)
        sys.dont_write_bytecode = True
        for k in range(DYNAMIC[tier]):
            dynamic(rec, random.Random(f"{seed}/C10/{shard['i']}/dyn{k}"), scratch, k)
    finally:
        sys.path.remove(scratch)
        shutil.rmtree(scratch, ignore_errors=True)
    if shard["i"] == 0:
        rec.sample({"file": files[0] if files else None, "generated": GM.gen_static_module(random.Random(1))[:600]})


def extra_coverage(agg, tier):
    c = agg["counters"]
    return {"programs": c.get("modules.validated", 0) + c.get("dynamic.runs", 0), "disagreements_checked": agg["nviol"]}


def replay(rec, case):
    warnings.filterwarnings("ignore")
    if "source" in case:
        scratch = tempfile.mkdtemp(prefix="jtv_c10_")
        try:
            open(os.path.join(scratch, "jtv_c10_spy.py"), "w").write(SPY_MODULE)
            sys.path.insert(0, scratch)
            src = case["source"]
            modname = "jtv_c10_replay"
            path = os.path.join(scratch, modname + ".py")
            open(path, "w").write(src)
            plain = run_module(path, modname, False, scratch)
            hooked = run_module(path, modname, True, scratch)
            if plain["stdout"] != hooked["stdout"] or plain["exc"] != hooked["exc"]:
                rec.violation("behaviour", case, "still differs", mechanism="replay")
        finally:
            sys.path.remove(scratch)
            shutil.rmtree(scratch, ignore_errors=True)
        return
    p = case["path"]
    if p.startswith("generated:"):
        src = GM.gen_static_module(random.Random(p[len("generated:"):]))
        validate(rec, src, "<generated>", case["typechecker"], p)
    else:
        validate(rec, open(p, "rb").read(), p, case["typechecker"], p)

"""Child process of C05: runs generated programs in ANOTHER interpreter configuration (python -O / -OO) and
prints their logs. The programs and the expected logs come from the parent."""
import json
import sys
import warnings

warnings.filterwarnings("ignore")


def main():
    import beartype
    import typeguard

    from jtv import real
    from jtv.checks import c05

    jobs = json.load(open(sys.argv[1]))
    out = {"optimize": sys.flags.optimize, "logs": {}}
    for key, src in jobs:
        ns = {"TRANSCRIPT": real.raw_transcript, "typeguard_tc": typeguard.typechecked, "beartype_tc": beartype.beartype, "__name__": "jtv_c05_prog"}
        try:
            real.exec_src(src, ns)
            out["logs"][key] = {"log": [list(c05.norm(e)) for e in ns["LOG"]], "after": real.raw_transcript().strip()}
        except BaseException as e:  # noqa
            out["logs"][key] = {"crash": f"{type(e).__name__}: {str(e)[:200]}"}
    print(json.dumps(out, default=str))


main()

"""C20 — annotations survive pickling and copying with their meaning intact."""

from __future__ import annotations

import base64
import copy
import hashlib
import json
import os
import pickle
import random
import shutil
import subprocess
import sys
import tempfile
import typing
import warnings

import numpy as np

from .. import probe, real

LEVEL = "exploration"
TECHNIQUE = "runtime monitoring: acceptance vectors (isinstance verdict + bindings over NumPy/JAX/scalar/duck probes) of every generated annotation vs its round-tripped copy through pickle protocols 2-5, cloudpickle, copy, deepcopy - in the same process and loaded in a fresh child process; originals re-measured after dumping/loading; sibling annotations loaded together, kept alive, or loaded after the previous copy was garbage-collected; loads after the original changed state; copies made while checking was off; array types whose instances change over time, original and copies asked at every moment; the first check of an annotation interrupted (KeyboardInterrupt from a trace function) at every line event, then compared with a fresh annotation and with its pickle copy"
LEVEL_TEXT = (
    "Held on every generated annotation x route explored: all 34 categories + an importable user category, array types "
    "class/Any/Union/nested annotation/TypeVar, dim strings with _, ..., *v, #, symbolic. Sampling over the product; each "
    "sampled annotation is observed through ~170 probe values in two prior states, in-process and cross-process."
)
LEVEL_NOTE = "Equality of meaning is approximated by equality of acceptance vectors over the probe set; the child process recomputes the probe set deterministically."
RULE = (
    "one case = (annotation expression, route, same-process | other-process); non-trivial = annotation is nested, has an "
    "anonymous/variadic/symbolic axis, a Union/TypeVar array type, or a user category (the forms whose reconstruction is not "
    "attribute-trivial); distinct by (expression, route, where)."
)
ASSUMPTIONS = ["a user category counts as 'importable by name' when its module is on sys.path of the loading process"]
CASES = {"quick": 90, "thorough": 2500}
NSHARDS = 16
SHARD_TIMEOUT = {"quick": 900, "thorough": 3600}

CATS = ["Float", "Int", "Shaped", "Bool", "Num", "Float32", "Key", "UInt8", "Inexact", "Integer", "Complex", "Real", "UInt", "Int8", "BFloat16", "UserCat", "UserFloat", "UserFloat", "UserHalf", "UserHalf"]
DIMS = ["", "a", "a b", "*v", "...", "_", "_ a", "... 3", "#a 2", "*#v b", "a+1", "_x *v", "n=3 a", "a _ ..."]
ARRS = ["np", "jax", "any", "union", "pep604", "typevar_bound", "typevar_constr", "duck", "ndarray_alias", "ndarray_alias_union"]

USER_MODULE = '''
import re
import jaxtyping

class UserCat(jaxtyping.AbstractDtype):
    dtypes = ["float32", re.compile("u?int8")]

class Float(jaxtyping.AbstractDtype):  # same NAME as an exported category, different meaning
    dtypes = ["float32", "float64"]

class Half(jaxtyping.Float):  # derives from a BUILT-IN category and narrows it
    dtypes = ["float16", "bfloat16"]
'''


def shards(tier):
    # every second shard is a process that imported jax / ml_dtypes / tensorflow-free numpy stack BEFORE jaxtyping
    return [({"i": i, "import_first": ["jax", "ml_dtypes"]} if i % 2 else {"i": i}) for i in range(NSHARDS)]


def required_counters(tier):
    return {
        "roundtrips.same_process": 1000,
        "roundtrips.other_process": 500,
        "kind.nested": 100,
        "kind.anonymous_axis": 100,
        "kind.user_category": 30,
        "kind.union_arraytype": 50,
        "originals_rechecked": 100, "sibling_groups": 20, "union_members_pickled_alone": 50,
        "route.cloudpickle": 200,
        "route.pickle": 400,
        "route.copy": 100,
        "route.deepcopy": 100, "roundtrips.two_hops": 300,
        "loads_after_state_change": 30, "roundtrips.made_while_checking_disabled": 30, "sibling_loads_after_previous_copy_was_collected": 200, "roundtrips.minimal_receiver": 100, "interrupted_first_check.interrupted": 200,
    }


def arr_type(kind):
    import jax

    if kind == "np":
        return np.ndarray
    if kind == "jax":
        return jax.Array
    if kind == "any":
        return typing.Any
    if kind == "union":
        return typing.Union[np.ndarray, jax.Array]
    if kind == "pep604":
        return np.ndarray | real.Duck
    if kind == "typevar_bound":
        return typing.TypeVar("T", bound=np.ndarray)
    if kind == "typevar_constr":
        return typing.TypeVar("T", np.ndarray, jax.Array)
    if kind == "duck":
        return real.Duck
    if kind == "ndarray_alias":
        import numpy.typing as npt

        return npt.NDArray[np.float32]  # a NumPy alias parametrised with a dtype
    if kind == "ndarray_alias_union":
        import numpy.typing as npt

        return typing.Union[npt.NDArray[np.int8], jax.Array]
    raise AssertionError(kind)


def category(name):
    import jaxtyping

    if name == "UserCat":
        import jtv_user_cats

        return jtv_user_cats.UserCat
    if name == "UserFloat":
        import jtv_user_cats

        return jtv_user_cats.Float
    if name == "UserHalf":
        import jtv_user_cats

        return jtv_user_cats.Half
    return getattr(jaxtyping, name)


def gen_expr(rng, depth=0):
    """-> JSON-able expression: ['ann', cat, arr_expr, dims] with arr_expr a kind name or a nested ann"""
    cat = rng.choice(CATS)
    dims = rng.choice(DIMS)
    if depth < 2 and rng.random() < 0.3:
        inner = gen_expr(rng, depth + 1)
        return ["ann", cat, inner, dims]
    return ["ann", cat, rng.choice(ARRS), dims]


def build(expr):
    _, cat, arr, dims = expr
    A = build(arr) if isinstance(arr, list) else arr_type(arr)
    return category(cat)[A, dims]


def try_build(expr):
    try:
        return build(expr)
    except ValueError:
        return None


def features(expr):
    f = set()
    e = expr
    while isinstance(e, list):
        _, cat, arr, dims = e
        if isinstance(arr, list):
            f.add("nested")
        if "_" in dims.replace("_x", "_") or "..." in dims:
            f.add("anonymous_axis")
        if "*" in dims or "+" in dims or "#" in dims:
            f.add("special_axis")
        if cat in ("UserCat", "UserFloat", "UserHalf"):
            f.add("user_category")
        if cat == "Shaped":
            f.add("any_dtype")
        if arr in ("union", "pep604", "typevar_constr"):
            f.add("union_arraytype")
        e = arr
    return f


_VALUES = None


def values():
    """deterministic probe set (rebuilt identically in the child process)"""
    global _VALUES
    if _VALUES is None:
        import jax
        import ml_dtypes

        v = []
        for dt in ("bool", "int8", "int32", "uint8", "float16", "float32", "float64", "complex64"):
            for sh in ((), (2,), (3,), (2, 3), (3, 2), (1, 2), (2, 3, 3), (4, 2, 3)):
                v.append(real.np_array(sh, dt))
        for sh in ((), (2, 3)):
            v.append(np.zeros(sh, dtype=ml_dtypes.bfloat16))
        for dt in ("bool", "int32", "float32", "bfloat16", "uint8"):
            for sh in ((), (2,), (2, 3), (3, 2, 3)):
                v.append(jax.device_put(np.zeros(sh, dtype=dt)))
        v += [jax.random.key(0), jax.random.split(jax.random.key(0), 2)]
        v += [True, 1, 1.5, "s", None, real.Duck((2, 3), "float32"), real.Duck((), "int8"), real.Duck((2,), "uint8")]
        _VALUES = v
    return _VALUES


PRI = [[], [("a", (2,)), ("*v", (2, 3))]]


def vec_hash(ann):
    """hash of the acceptance vector of an annotation (class or Union of classes)"""
    import jaxtyping

    alts = typing.get_args(ann) if (typing.get_origin(ann) is typing.Union) else (ann,)
    out = []
    for prior in PRI:
        for x in values():

            def body():
                for spec, shape in prior:
                    isinstance(real.np_array(shape), jaxtyping.Shaped[np.ndarray, spec])
                for alt in alts:
                    got = real.check(x, alt)
                    if got == "ok":
                        return got + "|" + real.raw_transcript()
                    if got != "no":
                        return got
                return "no"

            out.append(real.in_block_context(body))
    return hashlib.sha1("\n".join(out).encode()).hexdigest(), out


ROUTES = ["pickle2", "pickle3", "pickle4", "pickle5", "cloudpickle", "copy", "deepcopy"]


def dumps(route, ann):
    if route.startswith("pickle"):
        return pickle.dumps(ann, protocol=int(route[-1]))
    import cloudpickle

    return cloudpickle.dumps(ann)


def first_diff(a, b):
    vals = values()
    for i, (x, y) in enumerate(zip(a, b)):
        if x != y:
            import jtv.probe as P

            return f"probe #{i} ({P.describe_value(vals[i % len(vals)])}, prior {PRI[i // len(vals)]}): original {x!r} vs copy {y!r}"
    return "?"


def mech(expr, route, where, how):
    f = features(expr)
    tag = "nested" if "nested" in f else "sentinel" if (f & {"anonymous_axis", "any_dtype"}) else "flat"
    return f"{route.rstrip('2345')}-{where}-{tag}-{how}"


loaded_tmp = []
MINIMAL_PROBE_NAMES = ["float8_e3m4(2,)", "float4_e2m1fn(2,)", "float8_e8m0fnu(2,)", "float8_e4m3fn(2,)", "bfloat16(2,)", "float32(2,)", "int8(2,)", "int4(2,)", "float32()", "float8_e3m4(2,3)"]
MINIMAL_CHILD = """
import base64, json, pickle, sys, warnings
warnings.filterwarnings("ignore")
loaded = {}
for jid, b64 in json.load(open(sys.argv[1])):
    try:
        loaded[jid] = pickle.loads(base64.b64decode(b64))
    except Exception as e:
        loaded[jid] = e
"""
MINIMAL_PROBES = """
def answers(ann):
    import numpy as np, ml_dtypes
    if isinstance(ann, Exception):
        return ["load-raised:" + type(ann).__name__]
    out = []
    for dt, shape in (("float8_e3m4", (2,)), ("float4_e2m1fn", (2,)), ("float8_e8m0fnu", (2,)), ("float8_e4m3fn", (2,)), ("bfloat16", (2,)), ("float32", (2,)), ("int8", (2,)), ("int4", (2,)), ("float32", ()), ("float8_e3m4", (2, 3))):
        d = getattr(ml_dtypes, dt, None) or dt
        try:
            x = np.zeros(shape, dtype=d)
            out.append(bool(isinstance(x, ann)))
        except Exception as e:
            out.append("exc:" + type(e).__name__)
    return out
"""


def _copies(ann):
    """same-process copies of an annotation by every route that can carry it"""
    import pickle

    import cloudpickle

    out = []
    for label, mk in (("pickle", lambda: pickle.loads(pickle.dumps(ann))), ("pickle-protocol-2", lambda: pickle.loads(pickle.dumps(ann, protocol=2))), ("cloudpickle", lambda: pickle.loads(cloudpickle.dumps(ann))), ("deepcopy", lambda: copy.deepcopy(ann))):
        try:
            out.append((label, mk()))
        except Exception:  # noqa
            pass
    return out


def arm_interrupted_first_check(rec, rng):
    """the FIRST check ever made with an annotation is interrupted (KeyboardInterrupt / a signal-based timeout
    arriving at some line inside the library - delivered here by a trace function at the k-th line event, every k):
    afterwards the annotation still means what a freshly built equal one means, and so do its copies"""
    import jaxtyping

    N = np.ndarray
    repo = os.path.realpath(os.environ.get("JTV_REPO", "/repo"))
    small = [real.np_array(sh, dt) for dt in ("float32", "int32") for sh in ((), (3,), (2, 3), (2, 4), (4, 2, 3), (2, 3, 3))]

    def vec(ann):
        out = []
        for x in small:
            out.append(real.in_block_context(lambda: real.check(x, ann)))
        return out

    def run_interrupted(thunk, k):
        cnt = [0]

        def local(frame, event, arg):
            if event == "line":
                cnt[0] += 1
                if cnt[0] == k:
                    raise KeyboardInterrupt
            return local

        def tr(frame, event, arg):
            return local if os.path.realpath(frame.f_code.co_filename).startswith(repo) else None

        old = sys.gettrace()
        sys.settrace(tr)
        try:
            thunk()
            return "completed", cnt[0]
        except KeyboardInterrupt:
            return "interrupted", cnt[0]
        finally:
            sys.settrace(old)

    specs = rng.sample(["... 3", "*b c", "a ... b", "2 *v", "#a *b 3", "a b", "_ ... 3", "a *b"], 3)
    for spec in specs:
        mk = lambda: jaxtyping.Float[N, spec]
        ref = vec(mk())
        first = real.np_array((2, 3))
        # (the scope is entered before and left after the traced region: only the CHECK is interrupted - an interrupt
        # delivered in the middle of entering a `with` block is outside what any library can make safe)
        fresh0 = mk()
        _, K = real.in_block_context(lambda: run_interrupted(lambda: isinstance(first, fresh0), 0))
        for k in range(1, K + 1):
            ann = mk()
            how, _n = real.in_block_context(lambda: run_interrupted(lambda: isinstance(first, ann), k))
            rec.count("interrupted_first_check." + how)
            rec.case(("interrupted-first-check", spec, k), how == "interrupted")
            got = vec(ann)
            case = {"interrupted_first_check": spec, "line_event": k, "of": K}
            if got != ref:
                i = next(i for i, (a, b) in enumerate(zip(got, ref)) if a != b)
                rec.violation("meaning-changed", case, f"Float[ndarray, {spec!r}]: its first check was interrupted at line event {k}/{K}; afterwards it answers {got[i]} for {probe.describe_value(small[i])}, a freshly built one {ref[i]}", mechanism="interrupted-first-check-changes-the-annotation")
                return
            try:
                cp = pickle.loads(pickle.dumps(ann))
            except Exception as e:  # noqa
                rec.violation("roundtrip", case, f"after an interrupted first check the annotation cannot be pickled: {type(e).__name__}", mechanism="interrupted-first-check-breaks-pickling")
                return
            if vec(cp) != got:
                rec.violation("meaning-changed", case, f"Float[ndarray, {spec!r}] after a first check interrupted at line event {k}/{K}: the pickle copy answers differently from the original", mechanism="interrupted-first-check-copy-differs")
                return


def run_shard(rec, seed, shard, tier):
    warnings.filterwarnings("ignore")
    if shard.get("i", 0) % 4 == 1:
        # array types whose instances change over time (late ABC registration, protocols with data members, proxies):
        # the original and its copies answer alike at every moment
        real.array_type_membership_probe(rec, "C20", copies=_copies)
    if shard.get("i", 0) % 4 == 3:
        arm_interrupted_first_check(rec, random.Random(f"{seed}/C20/{shard['i']}/interrupted"))
    scratch = tempfile.mkdtemp(prefix="jtv_c20_")
    try:
        with open(os.path.join(scratch, "jtv_user_cats.py"), "w") as f:
            f.write(USER_MODULE)
        sys.path.insert(0, scratch)
        jobs = []  # for the child: (id, route, b64 blob, expected hash)
        meta = {}
        for k in range(CASES[tier]):
            rng = random.Random(f"{seed}/C20/{shard['i']}/{k}")
            expr = gen_expr(rng)
            ann = try_build(expr)
            if ann is None:
                rec.count("unbuildable_combination")
                continue
            h0, v0 = vec_hash(ann)
            feats = features(expr)
            for f_ in feats:
                rec.count("kind." + f_)
            routes = ROUTES if k % 3 == 0 else rng.sample(ROUTES, 3)
            for route in routes:
                rec.count("route." + route.rstrip("2345"))
                case = {"expr": expr, "route": route}
                try:
                    if route == "copy":
                        cp = copy.copy(ann)
                    elif route == "deepcopy":
                        cp = copy.deepcopy(ann)
                    else:
                        blob = dumps(route, ann)
                        cp = pickle.loads(blob)
                        jid = f"{k}/{route}"
                        jobs.append((jid, base64.b64encode(blob).decode(), h0))
                        meta[jid] = (expr, route, v0)
                except Exception as e:  # noqa
                    rec.case((expr, route, "same"), nontrivial=bool(feats))
                    rec.violation("roundtrip-raises", dict(case, where="same-process"), f"{route} of {expr} raised {type(e).__name__}: {str(e)[:200]}", mechanism=mech(expr, route, "same", "raises-" + type(e).__name__))
                    continue
                if route in ("pickle4", "cloudpickle", "deepcopy") and k % 4 == 1:
                    # the copy is made / loaded while checking is switched off and used after it is on again
                    import jaxtyping as _jt

                    _jt.config.update("jaxtyping_disable", True)
                    try:
                        cpw = copy.deepcopy(ann) if route == "deepcopy" else pickle.loads(blob)
                    finally:
                        _jt.config.update("jaxtyping_disable", False)
                    hw, vw = vec_hash(cpw)
                    rec.count("roundtrips.made_while_checking_disabled")
                    if hw != h0:
                        rec.violation("meaning-changed", dict(case, where="same-process, copy made while checking was disabled"), f"{route} copy of {expr} made while jaxtyping_disable was on accepts differently afterwards: {first_diff(v0, vw)}", mechanism=mech(expr, route, "disabled-window", "differs"))
                h1, v1 = vec_hash(cp)
                rec.case((expr, route, "same"), nontrivial=bool(feats))
                rec.count("roundtrips.same_process")
                if h1 != h0:
                    rec.violation("meaning-changed", dict(case, where="same-process"), f"{route} copy of {expr} accepts differently: {first_diff(v0, v1)}", mechanism=mech(expr, route, "same", "differs"))
            # a member class of a Union annotation, serialised on its own, must come back as that member
            if typing.get_origin(ann) is typing.Union and k % 2 == 1:
                for mi, member in enumerate(typing.get_args(ann)):
                    if not isinstance(member, type):
                        continue
                    hm, vm = vec_hash(member)
                    for route in ("pickle4", "cloudpickle"):
                        try:
                            cpm = pickle.loads(dumps(route, member))
                        except Exception as e:  # noqa
                            rec.violation("roundtrip-raises", {"expr": expr, "member": mi, "route": route}, f"{route} of union member #{mi} raised {type(e).__name__}", mechanism=f"{route.rstrip('2345')}-member-raises")
                            continue
                        rec.count("union_members_pickled_alone")
                        rec.case((expr, route, "member", mi), True)
                        hh, vv = vec_hash(cpm)
                        if hh != hm:
                            rec.violation("meaning-changed", {"expr": expr, "member": mi, "route": route}, f"{route} copy of member #{mi} of {expr} accepts differently from that member: {first_diff(vm, vv)}", mechanism=f"{route.rstrip('2345')}-union-member-differs")
            # related annotations loaded together and kept alive: same outer category, same flattened array
            # type and shape string, different inner dtypes (or flat vs nested) - they must stay distinct
            if isinstance(expr[2], list) and k % 2 == 0:
                sibs = [expr]
                inner = expr[2]
                for icat in rng.sample(CATS, 3):
                    if icat != inner[1]:
                        sibs.append([expr[0], expr[1], [inner[0], icat, inner[2], inner[3]], expr[3]])
                flat_inner = inner
                while isinstance(flat_inner[2], list):
                    flat_inner = flat_inner[2]
                if not isinstance(inner[2], list):
                    sibs.append(["ann", expr[1], inner[2], (expr[3] + " " + inner[3]).strip()])
                built = [(e, try_build(e)) for e in sibs]
                built = [(e, a) for e, a in built if a is not None]
                if len(built) >= 2:
                    rec.count("sibling_groups")
                    origs = [vec_hash(a) for _, a in built]
                    for route in ("pickle4", "cloudpickle"):
                        try:
                            blob = dumps(route, {i: a for i, (_, a) in enumerate(built)})
                            loaded = pickle.loads(blob)
                            alive = [pickle.loads(dumps(route, a)) for _, a in built]  # one by one, all kept alive
                        except Exception as e:  # noqa
                            rec.violation("roundtrip-raises", {"exprs": [e_ for e_, _ in built], "route": route}, f"{route} of a group raised {type(e).__name__}: {e}", mechanism=f"{route.rstrip('2345')}-group-raises")
                            continue
                        # ... and loaded one after the other with each copy DROPPED and collected before the next one is
                        # loaded (whatever the loader remembers about a dead class must not leak into the next)
                        import gc

                        blobs = [dumps(route, a) for _, a in built]
                        del loaded_tmp[:]
                        for rep in range(2):
                            for i, (e_, a) in enumerate(built):
                                cp_ = pickle.loads(blobs[i])
                                hh, vv = vec_hash(cp_)
                                rec.count("sibling_loads_after_previous_copy_was_collected")
                                if hh != origs[i][0]:
                                    rec.violation("meaning-changed", {"exprs": [x for x, _ in built], "index": i, "route": route, "how": "previous copies dropped and collected"}, f"{route}: annotation #{i} {e_} loaded after its siblings' copies had been dropped and garbage-collected accepts differently: {first_diff(origs[i][1], vv)}", mechanism=f"{route.rstrip('2345')}-load-after-collected-sibling-differs")
                                    break
                                del cp_
                                gc.collect()
                        for i, (e_, a) in enumerate(built):
                            for how, cp in (("one-dict", loaded[i]), ("kept-alive", alive[i])):
                                hh, vv = vec_hash(cp)
                                rec.case((e_, route, "group", how), nontrivial=True)
                                if hh != origs[i][0]:
                                    rec.violation("meaning-changed", {"exprs": [x for x, _ in built], "index": i, "route": route, "how": how}, f"{route}: annotation #{i} {e_} loaded together with its siblings ({how}) accepts differently: {first_diff(origs[i][1], vv)}", mechanism=f"{route.rstrip('2345')}-siblings-collide")
                                    break
            # the original's state changes BETWEEN dumps and loads (the one state change the library has: an old-style
            # decorated generator function makes the annotation of its return value accept everything): loading the
            # earlier bytes must leave the original exactly as it is at that moment
            if k % 5 == 2 and isinstance(ann, type):
                twin = try_build(expr)
                try:
                    blobs = {r_: dumps(r_, twin) for r_ in ("pickle4", "cloudpickle")}
                    import typeguard

                    import jaxtyping as _jt

                    ns = {"jaxtyped": _jt.jaxtyped, "tc": typeguard.typechecked, "T_r": typing.Iterator[twin]}
                    real.exec_src("@jaxtyped\n@tc\ndef g(n) -> T_r:\n    yield n\n", ns)
                    hb, vb = vec_hash(twin)
                    for r_, blob in blobs.items():
                        pickle.loads(blob)
                        ha, va = vec_hash(twin)
                        rec.count("loads_after_state_change")
                        rec.case((expr, r_, "load-after-state-change"), True)
                        if ha != hb:
                            rec.violation("original-changed", {"expr": expr, "route": r_, "scenario": "dumps, original changes state, loads"}, f"loading {r_} bytes made BEFORE the original {expr} changed state changed the original: {first_diff(vb, va)}", mechanism=f"{r_.rstrip('2345')}-loads-rewrites-original")
                            break
                except Exception as e:  # noqa
                    rec.count("loads_after_state_change.skipped")
            # serialising / loading must not change the original
            h2, v2 = vec_hash(ann)
            rec.count("originals_rechecked")
            if h2 != h0:
                rec.violation("original-changed", {"expr": expr}, f"original {expr} answers differently after being copied/pickled: {first_diff(v0, v2)}", mechanism="original-changed")
        # other process
        if jobs:
            jf = os.path.join(scratch, "jobs.json")
            with open(jf, "w") as f:
                json.dump([[j[0], j[1]] for j in jobs], f)
            env = dict(os.environ)
            env["PYTHONPATH"] = os.pathsep.join([os.environ.get("JTV_REPO", "/repo"), os.path.dirname(os.path.dirname(os.path.dirname(os.path.abspath(__file__)))), scratch])
            r = subprocess.run([sys.executable, "-m", "jtv.checks.c20_child", jf], capture_output=True, text=True, env=env, timeout=1500)
            try:
                res = json.loads(r.stdout.strip().splitlines()[-1])
            except Exception:
                rec.inconclusive.append(f"child process failed: rc={r.returncode} {r.stderr[-500:]}")
                res = {}
            for jid, _, h0 in jobs:
                if jid not in res:
                    continue
                expr, route, v0 = meta[jid]
                out = res[jid]
                rec.case((expr, route, "other"), nontrivial=bool(features(expr)))
                rec.count("roundtrips.other_process")
                case = {"expr": expr, "route": route, "where": "other-process"}
                if "error" in out:
                    rec.violation("roundtrip-raises", case, f"loading {route} pickle of {expr} in another process: {out['error']}", mechanism=mech(expr, route, "other", "raises-" + out["error"].split(":")[0]))
                elif out["hash"] != h0:
                    rec.violation("meaning-changed", case, f"{route} pickle of {expr} loaded in another process accepts differently: {first_diff(v0, out['vec'])}", mechanism=mech(expr, route, "other", "differs"))
                elif "hop2" in out:
                    rec.count("roundtrips.two_hops")
                    if out["hop2"] != h0:
                        rec.violation("meaning-changed", dict(case, where="other-process, then pickled again there"), f"{route} -> other process -> pickle there -> load: {expr} accepts differently ({out['hop2']})", mechanism=mech(expr, route, "twohop", "differs"))
        # a MINIMAL receiving process: it unpickles first (jaxtyping is imported by the unpickler, before jax or
        # ml_dtypes have been imported by anybody) and only then builds a few probe arrays
        pj = [(jid, b64) for jid, b64, _ in jobs if jid.endswith("/pickle4")][:40]
        if pj:
            probes_src = MINIMAL_PROBES
            mine = {}
            nsP = {}
            exec(probes_src, nsP)
            for jid, b64 in pj:
                ann = pickle.loads(base64.b64decode(b64))
                mine[jid] = nsP["answers"](ann)
            jf2 = os.path.join(scratch, "jobs_min.json")
            with open(jf2, "w") as f:
                json.dump(pj, f)
            env = dict(os.environ)
            env["PYTHONPATH"] = os.pathsep.join([os.environ.get("JTV_REPO", "/repo"), scratch])
            r = subprocess.run([sys.executable, "-c", MINIMAL_CHILD + probes_src + "\nprint(json.dumps({j: answers(a) for j, a in loaded.items()}))\n", jf2], capture_output=True, text=True, env=env, timeout=600)
            try:
                theirs = json.loads(r.stdout.strip().splitlines()[-1])
            except Exception:
                rec.inconclusive.append(f"minimal child failed: rc={r.returncode} {r.stderr[-300:]}")
                theirs = {}
            for jid, _ in pj:
                if jid not in theirs:
                    continue
                rec.count("roundtrips.minimal_receiver")
                if theirs[jid] != mine[jid]:
                    expr, route, _v = meta[jid]
                    bad = next(i for i, (a_, b_) in enumerate(zip(mine[jid], theirs[jid])) if a_ != b_)
                    rec.violation("meaning-changed", {"expr": expr, "route": route, "where": "minimal receiving process (unpickles before importing jax / ml_dtypes)"}, f"pickle of {expr} loaded in a process that had imported nothing but the standard library: probe {MINIMAL_PROBE_NAMES[bad]} answers {theirs[jid][bad]}, the original answers {mine[jid][bad]}", mechanism=mech(expr, route, "minimal-receiver", "differs"))
                    break
        rec.sample({"expr": ["ann", "Shaped", ["ann", "Float", "np", "a"], "b"], "routes": ROUTES})
    finally:
        try:
            sys.path.remove(scratch)
        except ValueError:
            pass
        shutil.rmtree(scratch, ignore_errors=True)


def replay(rec, case):
    warnings.filterwarnings("ignore")
    scratch = tempfile.mkdtemp(prefix="jtv_c20_")
    try:
        with open(os.path.join(scratch, "jtv_user_cats.py"), "w") as f:
            f.write(USER_MODULE)
        sys.path.insert(0, scratch)
        expr, route = case["expr"], case.get("route", "pickle4")
        ann = build(expr)
        h0, v0 = vec_hash(ann)
        if route == "copy":
            cp = copy.copy(ann)
        elif route == "deepcopy":
            cp = copy.deepcopy(ann)
        else:
            blob = dumps(route, ann)
            if case.get("where") == "other-process":
                jf = os.path.join(scratch, "jobs.json")
                json.dump([["x", base64.b64encode(blob).decode()]], open(jf, "w"))
                env = dict(os.environ)
                env["PYTHONPATH"] = os.pathsep.join([os.environ.get("JTV_REPO", "/repo"), os.path.dirname(os.path.dirname(os.path.dirname(os.path.abspath(__file__)))), scratch])
                r = subprocess.run([sys.executable, "-m", "jtv.checks.c20_child", jf], capture_output=True, text=True, env=env, timeout=600)
                out = json.loads(r.stdout.strip().splitlines()[-1])["x"]
                if "error" in out or out["hash"] != h0:
                    rec.violation("meaning-changed", case, str(out.get("error") or first_diff(v0, out["vec"])), mechanism="replay")
                return
            cp = pickle.loads(blob)
        h1, v1 = vec_hash(cp)
        if h1 != h0:
            rec.violation("meaning-changed", case, first_diff(v0, v1), mechanism="replay")
    finally:
        sys.path.remove(scratch)
        shutil.rmtree(scratch, ignore_errors=True)

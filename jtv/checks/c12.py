"""C12 — a check's verdict never depends on earlier, unrelated activity in the process.

History arm: random sequences over a catalogue of public operations, then a fixed probe
battery (top level + fresh context) must answer as it does in a fresh process, annotation
objects the history mentioned must answer as freshly built equal ones, and the shadow
store must be quiescent.  Fault arm (fault_enumeration): for every operation of the
catalogue every call-out into user/third-party code is enumerated and an Exception and a
BaseException are injected there (sys.monitoring failpoints); the battery runs after each.
"""

# (no `from __future__ import annotations` here: this module defines annotated functions for the typecheckers)

import pickle
import random
import threading
import typing
import warnings

import numpy as np

from .. import probe, real
from ..gen import trees as GT
from ..monitor import failpoints as FP
from ..monitor import shadowstore

_KEEP = []  # suspended generators / coroutines that stay alive until the process ends
from . import c04 as C04

LEVEL = "fault_enumeration"
TECHNIQUE = "runtime monitoring: probe battery after random public-API histories (must equal the fresh-process answers) + exhaustive single-fault injection (Exception and BaseException) at every call-out into user/third-party code of every catalogued operation via sys.monitoring failpoints; shadow-store quiescence invariant; cold-process arm (history before the first battery); suspended generators / coroutines kept alive; short-lived values in one scope; twin histories around the first call of a function with forward-referenced annotations"
LEVEL_TEXT = (
    "Fault arm: exhaustive over the operation catalogue - the number of (operation, call-out, exception class) triples "
    "injected equals the dry-run count. History arm: sampled sequences (length 1-12) over ~40 operations. After every "
    "history and every injected fault a 45-probe battery must answer exactly as in a fresh process."
)
LEVEL_NOTE = "A leak is assumed to be visible to the battery (wrong-dtype array, '?' outside a tree, shared annotation objects, top-level print_bindings) or to the shadow-store quiescence check."
RULE = (
    "history arm: one case = one operation sequence followed by the battery; fault arm: one case = (operation, call-out "
    "index, exception class). non-trivial = the history contains a failing/raising/decorating/pickling operation, resp. "
    "the fault fired inside the operation; distinct by the sequence resp. the triple."
)
ASSUMPTIONS = ["faults are injected only where jaxtyping calls out (user code, typechecker, jax.tree_util, dispatching builtins)"]
HISTORIES = {"quick": 40, "thorough": 1500}
NSHARDS = 16
SHARD_TIMEOUT = {"quick": 900, "thorough": 3600}


def shards(tier):
    return [{"i": i} for i in range(NSHARDS)]


def required_counters(tier):
    return {
        "same_named_array_types.cases": 8, "first_call_twins.compared": 4, "temporaries.checks": 100,
        "histories": 500,
        "battery_runs": 1000,
        "fault.injected.Exception": 300,
        "fault.injected.BaseException": 300,
        "fault.ops_enumerated": 20,
        "fault.kinds.user": 50,
        "fault.kinds.thirdparty": 50,
        "fault.kinds.builtin": 50,
        "shared_annotation_probes": 500, "cold_histories": 20,
    }


N = np.ndarray


def A(*shape, dt="float32"):
    return real.np_array(shape, dt)


def ctx(body):
    from jaxtyping import jaxtyped

    with jaxtyped("context"):
        return body()


# -------------------------------------------------------------------------------- battery
def battery():
    """45 probes; built from fresh annotations each time (construction caches included)."""
    import jaxtyping
    from jaxtyping import Float, Int, PyTree, Shaped, jaxtyped

    out = []
    c = real.check
    out.append(c(A(3, dt="int32"), Float[N, "a"]))  # wrong dtype rejected
    out.append(c(A(3), Float[N, "a b"]))  # wrong rank
    out.append(c(A(3), Shaped[N, "?n"]))  # '?' outside a PyTree -> annot
    out.append(c([1.5], PyTree[typing.Union[int, str]]))
    out.append(c([1.5], PyTree[int | str]))
    out.append(c([1, "a"], PyTree[int | str]))
    out.append(c(A(2, 3), Float[N, "2 4"]))
    out.append(c(A(3), Shaped[N, "a"]))
    out.append(c(A(4), Shaped[N, "a"]))  # top level is stateless
    out.append(real.raw_transcript())
    out.append(c([A(2, 3, dt="int32")], PyTree[Float[N, "a b"]]))  # flatten-mode leak would accept
    out.append(c((A(2), A(3)), PyTree[Float[N, "a"]]))  # top level: no cross-leaf binding? (bindings are throw-away)
    out.append(c(real.jax_array((2,)), Float[N, "a"]))  # wrong array type
    out.append(c(A(2, dt="int32"), Int[N, "a"]))
    out.append(c(np.zeros(3, dtype=np.int64), jaxtyping.Int64[N, "a"]))
    out.append(c(np.zeros(3, dtype=np.uint64), jaxtyping.UInt[N, "a"]))
    out.append(c(np.zeros(3, dtype=np.float64), jaxtyping.Float64[N, "a"]))
    out.append(c(A(2), Int[N, "a"]))
    out.append(c("hello", Float[N, "..."]))
    out.append(c(A(2, 3), pickle.loads(pickle.dumps(Float[N, "a b"]))))
    out.append(c(A(2), pickle.loads(pickle.dumps(Float[N, "a b"]))))
    out.append(c(A(1), Float[N, "q+1"]))  # unbound symbolic -> annot

    def in_ctx():
        r = []
        r.append(c(A(3), Shaped[N, "a"]))
        r.append(c(A(4), Shaped[N, "a"]))
        r.append(c(A(3, 4), Shaped[N, "a a+1"]))
        r.append(c(A(3, dt="int32"), Float[N, "a"]))
        r.append(c(A(3), Shaped[N, "?n"]))
        r.append(c((1, 2), PyTree[int, "T"]))
        r.append(c((1, (2,)), PyTree[int, "T"]))
        r.append(c({"k": A(3), "j": A(5)}, PyTree[Shaped[N, "?n"], "S"]))
        r.append(c({"k": A(3), "j": A(6)}, PyTree[Shaped[N, "?n"], "S"]))
        r.append(c(A(2, 3), Shaped[N, "*v"]))
        r.append(c(A(2, 4), Shaped[N, "*v"]))
        r.append(c(A(1, 3), Shaped[N, "*#v"]))
        r.append(c([A(3), A(4)], PyTree[Shaped[N, "a"]]))
        r.append(c((1, 2), PyTree[int, "T U"]))
        r.append(real.raw_transcript())
        return r

    out.append(ctx(in_ctx))

    @jaxtyped(typechecker=None)
    def g(x, n):
        return c(A(n), Shaped[N, "{n}"]), c(A(n + 1), Shaped[N, "{n}"]), real.raw_transcript()

    out.append(g(0, 2))
    import typeguard

    @jaxtyped(typechecker=typeguard.typechecked)
    def f(x: Float[N, "a b"], y: Float[N, "b"]) -> Float[N, "a"]:
        return A(x.shape[0])

    for args in ((A(2, 3), A(3)), (A(2, 3), A(4)), (A(2, 3, dt="int32"), A(3))):
        try:
            f(*args)
            out.append("ok")
        except Exception as e:  # noqa
            out.append(type(e).__name__)
    # a sibling produced by the module-level factory `_factory_head` (the same `def`, executed again): whatever
    # siblings exist already, this one goes by its own default
    h8 = _factory_head(8)
    for size in (8, 4):
        try:
            h8(A(size))
            out.append("ok")
        except Exception as e:  # noqa
            out.append(type(e).__name__)
    out.append(real.raw_transcript())
    out.append((jaxtyping.config.jaxtyping_disable, jaxtyping.config.jaxtyping_remove_typechecker_stack))
    return out


_FACTORY = {}


def _factory_head(k):
    import typeguard

    import jaxtyping

    if not _FACTORY:
        ns = {"jaxtyped": jaxtyping.jaxtyped, "tc": typeguard.typechecked, "X": jaxtyping.Float[N, "{d}"]}
        real.exec_src("def make(k):\n    @jaxtyped(typechecker=tc)\n    def head(x: X, d=k):\n        return d\n    return head\n", ns)
        _FACTORY["make"] = ns["make"]
    return _FACTORY["make"](k)


def quiescent():
    st = shadowstore.quiescent_state()
    return st


# ------------------------------------------------------------------- operations catalogue
class Shared:
    """annotation objects that a history mentions; compared afterwards with fresh equal ones"""

    def __init__(self):
        from jaxtyping import Float, PyTree, Shaped

        self.img = Float[N, "c h w"]
        self.vec = Shaped[N, "n"]
        self.tree = PyTree[Float[N, "a"], "T"]
        self.q = PyTree[Shaped[N, "?k"], "T"]
        self.sym = Float[N, "n+1"]  # binds nothing but READS the bindings: same object, different contexts
        self.symarg = Float[N, "{k}"]

    def fresh(self):
        return Shared()

    def vectors(self):
        vals = [A(3, 4, 5), A(2, 2, 2), A(3), A(3, 4, 5, dt="int32"), "hello", 7, None, [A(2), A(2)], [A(2), A(3)], {"a": A(1)}, (A(2), "x")]
        out = []
        for name in ("img", "vec", "tree", "q"):
            ann = getattr(self, name)
            out.append(tuple(ctx(lambda: real.check(x, ann)) for x in vals))
        from jaxtyping import Shaped, jaxtyped

        def under(n, size):
            return ctx(lambda: (real.check(A(n), Shaped[N, "n"]), real.check(A(size), self.sym))[1])

        @jaxtyped(typechecker=None)
        def witharg(k, size):
            return real.check(A(size), self.symarg)

        out.append((under(2, 3), under(4, 3), under(4, 5), under(2, 5), real.check(A(3), self.sym), ctx(lambda: real.check(A(3), self.sym))))
        out.append((witharg(3, 3), witharg(4, 3), witharg(4, 4), witharg(3, 4)))
        return out


def catalogue(sh):
    """-> dict name -> zero-arg callable. Each uses sh.* where an annotation is mentioned."""
    import beartype
    import typeguard

    import jaxtyping
    from jaxtyping import Float, PyTree, Shaped, jaxtyped

    C04.ensure_faulty_registered()
    ops = {}
    ops["pass_array"] = lambda: ctx(lambda: isinstance(A(3, 4, 5), sh.img))
    ops["fail_array"] = lambda: ctx(lambda: (isinstance(A(3, 4, 5), sh.img), isinstance(A(3, 9), Float[N, "c 7"])))
    ops["raise_array_symbolic"] = lambda: ctx(lambda: real.check(A(3, 4), Float[N, "c zz+1"]))
    ops["raise_question_toplevel"] = lambda: real.check(A(3), Shaped[N, "?k"])
    ops["pass_tree"] = lambda: ctx(lambda: isinstance([A(2), (A(2),)], sh.tree))
    ops["symbolic_shared_pass"] = lambda: ctx(lambda: (isinstance(A(2), Shaped[N, "n"]), isinstance(A(3), sh.sym)))
    ops["symbolic_shared_fail"] = lambda: ctx(lambda: (isinstance(A(4), Shaped[N, "n"]), isinstance(A(3), sh.sym)))

    def symbolic_arg_shared():
        @jaxtyped(typechecker=None)
        def g(k):
            return isinstance(A(3), sh.symarg)

        return g(3), g(5)

    ops["symbolic_arg_shared"] = symbolic_arg_shared
    ops["fail_tree_2nd_leaf"] = lambda: ctx(lambda: isinstance([A(2), (A(3),)], sh.tree))
    ops["q_tree"] = lambda: ctx(lambda: (isinstance([A(2), A(3)], sh.q), isinstance([A(2), A(4)], sh.q)))
    # the same kinds of check made OUTSIDE every context (a context that ends puts per-thread check state back to
    # what it was when it began, which would hide state left behind by something that failed inside it)
    ops["q_tree_toplevel"] = lambda: (isinstance([A(2), A(3)], sh.q), isinstance({"a": A(2), "b": (A(4),)}, sh.q))
    ops["nested_pytree_toplevel"] = lambda: real.check([[A(2), A(2)], A(2)], PyTree[PyTree[Shaped[N, "?k"]], "T"])
    ops["fail_tree_2nd_leaf_toplevel"] = lambda: isinstance([A(2), (A(3, dt="int32"),)], sh.tree)
    ops["factory_sibling_4"] = lambda: _factory_head(4)(A(4))
    ops["factory_sibling_2_bad"] = lambda: _factory_head(2)(A(3))
    ops["raise_tree_unbound_struct"] = lambda: ctx(lambda: real.check([A(2)], PyTree[Float[N, "a"], "S T"]))
    ops["nested_pytree"] = lambda: ctx(lambda: real.check([[A(2), A(2)], A(2)], PyTree[PyTree[Shaped[N, "?k"]], "T"]))
    ops["two_structured"] = lambda: ctx(lambda: real.check([[A(2)]], PyTree[PyTree[Shaped[N, "?k"], "S"], "T"]))
    ops["pep604_then_union"] = lambda: (PyTree[int | str], PyTree[typing.Union[int, str]], real.check([1.5], PyTree[int | str]))
    ops["union_then_pep604"] = lambda: (PyTree[typing.Union[int, float]], PyTree[int | float])
    # dtypes that compare (and hash) equal to the canonical ones although they are different scalar types:
    # a dtype-keyed memo anywhere in the check would let them answer for their twins later on
    ops["alias_dtype_arrays"] = lambda: [real.check(np.zeros(3, dtype=dt), Shaped[N, "..."]) for dt in (np.longlong, np.ulonglong, np.dtype("=i8").newbyteorder("="), np.dtype([("a", np.uint8)], align=True))]
    # annotations that would collide with the battery's under a too-coarse construction-cache key
    ops["construct_variants"] = lambda: (
        PyTree[int, "T U"], PyTree[int, "U"], PyTree[int, "... T"], PyTree[int], PyTree[str, "T"], PyTree[Float[N, "a"]],
        jaxtyping.Int[N, "a"], jaxtyping.Int[N, "a b"], Float[real.Duck, "a"], Shaped[N, "a b"], Float[N, "b a"], Float[N, "a  b"],
        jaxtyping.Float32[N, "a"], Float[typing.Any, "a"], Shaped[N, "?n m"], Shaped[N, "*v w"], Float[N, "2 5"], Float[N, "q"],
    )

    def decorate_new():
        @jaxtyped(typechecker=typeguard.typechecked)
        def f(x: sh.img, y: sh.vec) -> sh.vec:
            return y

        return f

    ops["decorate_new"] = decorate_new
    ops["call_new_ok"] = lambda: decorate_new()(A(3, 4, 5), A(2))

    def call_new_bad():
        try:
            decorate_new()(A(3, 4, 5), A(2, 2))
        except Exception as e:  # noqa
            return type(e).__name__

    ops["call_new_bad"] = call_new_bad

    def decorate_bear():
        @jaxtyped(typechecker=beartype.beartype)
        def f(x: sh.img, t: sh.tree) -> sh.img:
            return x

        return f

    ops["decorate_bear"] = decorate_bear
    ops["call_bear_ok"] = lambda: decorate_bear()(A(3, 4, 5), [A(2)])

    def call_bear_bad():
        try:
            decorate_bear()(A(3, 4, 5), [A(2), A(3)])
        except Exception as e:  # noqa
            return type(e).__name__

    ops["call_bear_bad"] = call_bear_bad

    def decorate_old():
        @jaxtyped
        @typeguard.typechecked
        def f(x: sh.img) -> sh.img:
            return x

        return f

    ops["decorate_old"] = decorate_old
    ops["call_old_ok"] = lambda: decorate_old()(A(3, 4, 5))

    def oldstyle_generator_shared_return():
        @jaxtyped
        @typeguard.typechecked
        def g(x: sh.vec) -> typing.Iterator[sh.img]:
            yield A(3, 4, 5)

        return list(g(A(3)))

    ops["oldstyle_generator_shared_return"] = oldstyle_generator_shared_return

    def newstyle_generator():
        @jaxtyped(typechecker=typeguard.typechecked)
        def g(x: sh.img):
            yield x

        it = g(A(3, 4, 5))
        next(it)
        del it

    ops["newstyle_generator_abandoned"] = newstyle_generator

    def generator_left_suspended():
        # started, advanced once and KEPT: it is still suspended while everything that follows runs
        @jaxtyped(typechecker=typeguard.typechecked)
        def g(x: sh.img, y: sh.vec):
            yield x
            yield y

        it = g(A(3, 4, 5), A(7))
        next(it)
        _KEEP.append(it)

    ops["generator_left_suspended"] = generator_left_suspended

    def coroutine_left_suspended():
        # a decorated coroutine function: its coroutine is driven to its first suspension point and kept (what an
        # event loop does with a task that awaits something slow) while everything that follows runs
        class Suspend:
            def __await__(self):
                yield "suspended"

        ns = {"jaxtyped": jaxtyped, "tc": typeguard.typechecked, "T_img": sh.img, "T_vec": sh.vec, "Suspend": Suspend}
        real.exec_src("@jaxtyped(typechecker=tc)\nasync def co(x: T_img, y: T_vec):\n    await Suspend()\n    return 0\n", ns)
        c = ns["co"](A(3, 4, 5), A(7))
        c.send(None)
        _KEEP.append(c)

    ops["coroutine_left_suspended"] = coroutine_left_suspended

    def decorate_dataclass():
        import dataclasses

        @jaxtyped(typechecker=typeguard.typechecked)
        @dataclasses.dataclass
        class D:
            x: sh.img
            t: sh.tree

        D(A(3, 4, 5), [A(1)])
        try:
            D(A(3, 4), [A(1)])
        except Exception as e:  # noqa
            return type(e).__name__

    ops["dataclass"] = decorate_dataclass
    ops["pickle_shared"] = lambda: pickle.loads(pickle.dumps(sh.img))

    def cloudpickle_shared():
        import cloudpickle

        return cloudpickle.loads(cloudpickle.dumps(sh.img))

    ops["cloudpickle_shared"] = cloudpickle_shared
    ops["nest_shared"] = lambda: Shaped[sh.img, "b"]

    def name_format():
        jaxtyping.set_array_name_format("array")
        try:
            return Float[N, "u v"].__name__
        finally:
            jaxtyping.set_array_name_format("dtype_and_shape")

    ops["name_format_toggle"] = name_format

    def hook():
        h = jaxtyping.install_import_hook("jtv_nonexistent_pkg_xyz", "typeguard.typechecked")
        h.uninstall()
        with jaxtyping.install_import_hook(["jtv_nonexistent_a", "jtv_nonexistent_b"], None):
            pass

    ops["hook_install_uninstall"] = hook

    def toggle_config():
        jaxtyping.config.update("jaxtyping_disable", True)
        try:
            decorate_new()(A(1), A(2, 2))
        finally:
            jaxtyping.config.update("jaxtyping_disable", False)
        jaxtyping.config.update("jaxtyping_remove_typechecker_stack", "1")
        jaxtyping.config.update("jaxtyping_remove_typechecker_stack", "false")

    ops["toggle_config"] = toggle_config

    # user code involved in the check: the call-outs that matter for the fault arm
    def duck_check():
        x = C04.FaultyDuck((3, 4, 5), "float32", "shape", 0, FP.Injected)
        return ctx(lambda: (isinstance(x, Float[typing.Any, "c *v w"]), isinstance(x, Float[C04.FaultyDuck, "c h 7"])))

    ops["duck_check"] = duck_check

    def evil_leaf():
        C04._EvilMeta.plan.update(k=0, n=0)
        L = typing.Union[C04.Evil, Float[N, "a zz"]]
        return ctx(lambda: (isinstance([A(2, 3), A(2, 3)], PyTree[L, "T"]), isinstance([A(2, 3), A(4, 3)], PyTree[L])))

    ops["evil_leaf_tree"] = evil_leaf

    def faulty_flatten():
        C04.FaultyNode.plan.update(k=0, n=0)
        v = (A(3), C04.FaultyNode([A(3), C04.FaultyNode([A(3)])]))
        return ctx(lambda: (isinstance(v, PyTree[Float[N, "a"], "T"]), isinstance(v, PyTree[Shaped[N, "?k"], "T"])))

    ops["custom_flatten_tree"] = faulty_flatten

    def symbolic_call():
        @jaxtyped(typechecker=typeguard.typechecked)
        def f(x: Float[N, "a"], n: int) -> Float[N, "a+{n}"]:
            return A(x.shape[0] + n)

        return f(A(2), 3).shape

    ops["symbolic_call"] = symbolic_call

    def wrapped_fn_raises():
        @jaxtyped(typechecker=beartype.beartype)
        def f(x: sh.vec, t: sh.q):
            raise KeyError("from the wrapped function")

        try:
            f(A(2), [A(1), A(2)])
        except KeyError:
            return "KeyError"

    ops["wrapped_fn_raises"] = wrapped_fn_raises

    def typechecker_raises():
        def weird(fn):
            def w(*a, **k):
                raise OSError("typechecker blew up")

            return w

        @jaxtyped(typechecker=weird)
        def f(x: sh.vec):
            return x

        try:
            f(A(2))
        except Exception as e:  # noqa
            return type(e).__name__

    ops["typechecker_raises"] = typechecker_raises

    def other_thread():
        r = []
        t = threading.Thread(target=lambda: r.append(ctx(lambda: isinstance([A(2), A(3)], sh.q))))
        t.start()
        t.join()
        return r

    ops["check_in_other_thread"] = other_thread

    def ctx_exit_by_exception():
        try:
            with jaxtyped("context"):
                isinstance(A(3, 4, 5), sh.img)
                raise C04.InjectedAbort("leaving the block")
        except BaseException:
            pass

    ops["context_block_aborted"] = ctx_exit_by_exception

    def print_in_call():
        @jaxtyped(typechecker=typeguard.typechecked)
        def f(x: sh.img):
            return real.raw_transcript()

        return f(A(3, 4, 5))

    ops["print_bindings_in_call"] = print_in_call
    return ops


KNOWN_TRANSPARENT = "oldstyle_generator_shared_return"


def compare(rec, what, base, got, case, mech_prefix):
    if got == base:
        return True
    idx = next((i for i, (a, b) in enumerate(zip(base, got)) if a != b), None)
    rec.violation(
        "history-dependence",
        case,
        f"{what}: probe #{idx} answers {got[idx] if idx is not None else got!r} but a fresh process answers {base[idx] if idx is not None else base!r}",
        mechanism=f"{mech_prefix}-battery-probe-{idx}",
    )
    return False


def check_after(rec, base, case, hist_names, sh, mech_prefix):
    """battery + quiescence + shared annotation objects. Returns True if all fine."""
    rec.count("battery_runs")
    ok = compare(rec, "battery", base, jsonable(battery()), case, mech_prefix)
    st = quiescent()
    if st is not None and st != (0, False, None):
        rec.violation("not-quiescent", case, f"after the operation the storage is (depth, flatten flag, '?' label) = {st}", mechanism=f"{mech_prefix}-storage-not-quiescent-{'depth' if st[0] else 'flag' if st[1] else 'label'}")
        ok = False
        try:
            from jaxtyping import _storage as S

            S._shape_storage.memo_stack.clear()
            S._treeflatten_storage.value = False
            S._treepath_storage.value = None
            shadowstore._sh().stack.clear()
            shadowstore._sh().flat = False
            shadowstore._sh().path = None
        except Exception:
            pass
    if shadowstore.violations:
        kind, detail, tname = shadowstore.violations[0]
        rec.violation("shadow-" + kind, case, detail, mechanism=f"{mech_prefix}-shadow-{kind}")
        shadowstore.violations.clear()
        ok = False
    if sh is not None:
        rec.count("shared_annotation_probes")
        v1, v2 = sh.vectors(), sh.fresh().vectors()
        # the two symbolic annotations have answers that are known outright (n+1 / {k} under the given bindings)
        want_sym = (("ok", "no", "ok", "no", "annot", "annot"), ("ok", "no", "ok", "no"))
        if tuple(v1[4:6]) != want_sym:
            rec.violation("annotation-mutated", case, f"shared symbolic annotations re-checked under different bindings answer {v1[4:6]}, expected {want_sym}", mechanism=f"{mech_prefix}-symbolic-annotation-remembers-earlier-verdict")
            ok = False
        if v1 != v2:
            names4 = ("img", "vec", "tree", "q", "sym", "symarg")
            differ = [nm for nm, a, b in zip(names4, v1, v2) if a != b]
            which = names4.index(differ[0])
            mech = f"{mech_prefix}-shared-annotation-{'+'.join(differ)}-changed"
            # the recorded finding covers exactly: only 'img' (the generator's return annotation) became all-accepting
            if KNOWN_TRANSPARENT in hist_names and differ == ["img"] and all(x == "ok" for x in v1[0]):
                mech = "oldstyle-generator-makes-return-annotation-transparent"
            rec.violation("annotation-mutated", case, f"annotation objects {differ} mentioned by the history answer {v1[which]} ... but freshly built equal annotations answer {v2[which]} ...", mechanism=mech)
            ok = False
    return ok


def run_histories(rec, seed, shard, tier, base):
    for h in range(HISTORIES[tier]):
        rng = random.Random(f"{seed}/C12/{shard['i']}/{h}")
        sh = Shared()
        ops = catalogue(sh)
        names = sorted(ops)
        hist = [rng.choice(names) for _ in range(rng.randint(1, 12))]
        case = {"history": hist, "rngkey": f"{seed}/C12/{shard['i']}/{h}"}
        for n in hist:
            try:
                ops[n]()
            except BaseException:  # noqa - operations may legitimately raise
                pass
        rec.count("histories")
        rec.case(tuple(hist), nontrivial=any(("fail" in n or "raise" in n or "decorate" in n or "pickle" in n or "call" in n) for n in hist))
        for n in set(hist):
            rec.count("op." + n)
        check_after(rec, base, case, hist, sh, "history")
        if h == 0 and shard["i"] == 0:
            rec.sample(case)


def run_faults(rec, seed, shard, tier, base):
    sh = Shared()
    ops = catalogue(sh)
    names = sorted(n for n in ops if n != KNOWN_TRANSPARENT)
    user_files = {C04.__file__, real.__file__, GT.__file__, __file__}
    total_dry, total_inj = 0, 0
    with FP.Injector(user_files) as inj:
        t = 0
        for idx, n in enumerate(names):
            sh = Shared()
            op = catalogue(sh)[n]
            log, out = inj.dry_run(op)
            if shard["i"] == 0:
                rec.count("fault.ops_enumerated")
                rec.info.setdefault("callouts", []).append(f"{n}:{len(log)}")
            stop = False
            for k, desc in enumerate(log):
                for exc in (FP.Injected, FP.InjectedAbort):
                    t += 1
                    if t % NSHARDS != shard["i"] or stop:
                        continue  # triples are dealt round-robin to the shards
                    total_dry += 1
                    sh = Shared()
                    op = catalogue(sh)[n]
                    fired, out = inj.run_with_fault(op, k, exc)
                    case = {"op": n, "callout": k, "desc": desc, "exc": exc.__name__}
                    rec.case((n, k, exc.__name__), nontrivial=fired is not None)
                    if fired is None:
                        rec.count("fault.not_reached")
                        continue
                    total_inj += 1
                    rec.count("fault.injected." + ("Exception" if exc is FP.Injected else "BaseException"))
                    rec.count("fault.kinds." + desc.split(":")[0])
                    if not check_after(rec, base, case, [n], sh, "fault"):
                        stop = True
    rec.count("fault.triples_dry_run", total_dry)
    rec.count("fault.triples_injected", total_inj)


def jsonable(x):
    import json

    return json.loads(json.dumps(x, default=repr))


def cold(args, timeout=300):
    """run `python -m jtv.checks.c12_cold <args>` in a fresh process -> parsed JSON or None"""
    import json
    import os
    import subprocess
    import sys

    env = dict(os.environ)
    r = subprocess.run([sys.executable, "-m", "jtv.checks.c12_cold"] + list(args), capture_output=True, text=True, env=env, timeout=timeout)
    try:
        return json.loads(r.stdout.strip().splitlines()[-1])
    except Exception:
        return {"error": f"rc={r.returncode} {r.stderr[-400:]}"}


COLD = {"quick": 3, "thorough": 40}


_FWD_SRC = '''
from jaxtyping import jaxtyped
@jaxtyped(typechecker=CHECKER)
def f(x: "Vec", y: "Vec"):
    return "ran"
class K:
    @jaxtyped(typechecker=CHECKER)
    def m(self, x: "Vec", y: "Vec") -> "Vec":
        return x
'''


def arm_first_call_twins(rec):
    """a function whose annotations name something that is defined only LATER in its module (forward references):
    whatever the library makes of such a function, it makes the same of it whether or not the function happened to be
    called - well-typed, ill-typed - before the name came into existence (twin histories, same later probes)"""
    import beartype
    import typeguard

    import jaxtyping

    N = np.ndarray

    def A(n, dt="float32"):
        return np.zeros((n,), dtype=dt)

    def history(tc, early):
        ns = {"CHECKER": tc, "__name__": "jtv_c12_fwd"}
        real.exec_src(_FWD_SRC, ns)
        k = ns["K"]()
        for who in (ns["f"], k.m):
            try:
                if early == "well-typed":
                    who(A(2), A(2))
                elif early == "ill-typed":
                    who(A(2), A(3))
            except Exception:  # noqa
                pass
        ns["Vec"] = jaxtyping.Float[N, "n"]  # the forward reference becomes resolvable
        out = []
        for who in (ns["f"], k.m):
            for args in ((A(2), A(2)), (A(2), A(3)), (A(2), A(2, "int32"))):
                try:
                    r = who(*args)
                    out.append("ran" if isinstance(r, (str, np.ndarray)) else repr(r))
                except Exception as e:  # noqa
                    out.append(type(e).__name__)
        return out

    for cname, tc in (("typeguard", typeguard.typechecked), ("beartype", beartype.beartype)):
        ref = history(tc, None)
        for early in ("well-typed", "ill-typed"):
            got = history(tc, early)
            rec.count("first_call_twins.compared")
            rec.case(("first-call-twins", cname, early), True)
            if got != ref:
                rec.violation("history-dependence", {"first_call_twins": early, "checker": cname}, f"[{cname}] function with forward-referenced annotations: later calls answer {got} when the function had been called ({early}) before the name was defined, {ref} when it had not", mechanism="earlier-call-of-the-same-function-decides-later-verdicts")
                return


_SAMENAME = [0]


def arm_same_named_array_types(rec):
    """two libraries each have an array class called `Tensor` (torch.Tensor / tensorflow.Tensor): annotations over
    them print alike but are different classes.  Functions annotated with one of them are decorated in either order;
    what each function accepts does not depend on which other function was decorated before it."""
    import beartype
    import typeguard

    import jaxtyping
    from jaxtyping import jaxtyped

    for cname, tc in (("typeguard", typeguard.typechecked), ("beartype", beartype.beartype)):
        for hint in ("plain", "tuple"):
            for order in ("f-first", "g-first"):
                _SAMENAME[0] += 1
                dim = f"jtvsame{_SAMENAME[0]}"  # (typecheckers cache hints process-wide by their text: a new text every time)
                A1 = type("Tensor", (np.ndarray,), {"__module__": "libone"})
                A2 = type("Tensor", (np.ndarray,), {"__module__": "libtwo"})
                H1, H2 = jaxtyping.Float[A1, dim], jaxtyping.Float[A2, dim]
                ns = {"H1": H1, "H2": H2}
                ann = (lambda h: h) if hint == "plain" else (lambda h: f"tuple[{h}, int]")
                real.exec_src(f"def f(x: {ann('H1')}):\n    return 'ran'\ndef g(x: {ann('H2')}):\n    return 'ran'\n", ns)
                names = ("f", "g") if order == "f-first" else ("g", "f")
                deco = {}
                for nm in names:
                    deco[nm] = jaxtyped(typechecker=tc)(ns[nm])
                a1, a2 = np.zeros(3, dtype="float32").view(A1), np.zeros(3, dtype="float32").view(A2)
                wrap = (lambda v: v) if hint == "plain" else (lambda v: (v, 1))
                obs = []
                for nm, v in (("f", a1), ("f", a2), ("g", a2), ("g", a1)):
                    try:
                        deco[nm](wrap(v))
                        obs.append("ok")
                    except Exception as e:  # noqa
                        obs.append("TypeCheckError" if isinstance(e, jaxtyping.TypeCheckError) else type(e).__name__)
                rec.count("same_named_array_types.cases")
                rec.case(("same-named", cname, hint, order), True)
                want = ["ok", "TypeCheckError", "ok", "TypeCheckError"]
                if obs == want:
                    continue
                # the known pattern: under beartype, inside a PEP 585 hint, the function decorated SECOND is checked against
                # the annotation of the function decorated first
                second_follows_first = ["ok", "TypeCheckError", "TypeCheckError", "ok"] if order == "f-first" else ["TypeCheckError", "ok", "ok", "TypeCheckError"]
                known = cname == "beartype" and hint == "tuple" and obs == second_follows_first
                rec.violation(
                    "history-dependence",
                    {"same_named_array_types": True, "checker": cname, "hint": hint, "order": order, "observed": obs},
                    f"[{cname}] f(x: {ann('Float[libone.Tensor]')}) and g(x: {ann('Float[libtwo.Tensor]')}) decorated {order}: f(own), f(other), g(own), g(other) -> {obs}, expected {want}",
                    mechanism="beartype-conflates-same-named-annotation-classes-inside-pep585-hints" if known else "same-named-array-types-verdict-depends-on-decoration-order",
                )


def run_shard(rec, seed, shard, tier):
    warnings.filterwarnings("ignore")
    GT.ensure_registered()
    C04.ensure_faulty_registered()
    if shard["i"] % 4 == 1:
        real.temporaries_probe(rec, "C12")  # a verdict about a value that has died says nothing about its successor
    if shard["i"] % 4 == 2:
        arm_first_call_twins(rec)
    if shard["i"] % 4 == 3:
        arm_same_named_array_types(rec)
    # the specification: the battery's answers in a fresh process that has done nothing else
    fresh = cold(["--battery-only"])
    if "error" in fresh:
        rec.inconclusive.append("cannot obtain the fresh-process battery: " + fresh["error"])
        return
    base = fresh["battery"]
    rec.info["shadow_store_attached"] = shadowstore.attach()
    for attempt in (1, 2, 3):
        b = jsonable(battery())
        rec.count("battery_runs")
        if b != base:
            idx = next((i for i, (x, y) in enumerate(zip(base, b)) if x != y), None)
            rec.violation(
                "history-dependence",
                {"history": ["battery"] * (attempt - 1)},
                f"battery run #{attempt} in this process: probe #{idx} answers {b[idx] if idx is not None else b!r}, a fresh process answers {base[idx] if idx is not None else base!r} (the only earlier activity is the battery itself)",
                mechanism=f"battery-not-idempotent-probe-{idx}",
            )
            return
    run_faults(rec, seed, shard, tier, base)
    run_histories(rec, seed, shard, tier, base)
    # cold arm: history first, battery afterwards, all in a fresh process (construction caches cold)
    for j in range(COLD[tier]):
        key = f"{seed}/C12/{shard['i']}/cold{j}"
        out = cold(["--history", key])
        rec.count("cold_histories")
        if "error" in out:
            rec.inconclusive.append("cold history failed: " + out["error"])
            continue
        case = {"history": out["history"], "rngkey": key, "cold": True}
        rec.case(("cold",) + tuple(out["history"]), nontrivial=True)
        if out["battery"] != base:
            idx = next((i for i, (x, y) in enumerate(zip(base, out["battery"])) if x != y), None)
            rec.violation("history-dependence", case, f"fresh process, history {out['history']} then battery: probe #{idx} answers {out['battery'][idx] if idx is not None else '?'} but without the history {base[idx] if idx is not None else '?'}", mechanism=f"cold-history-battery-probe-{idx}")
        if out.get("shared_differs"):
            mech = "cold-shared-annotation-changed"
            if KNOWN_TRANSPARENT in out["history"] and out["shared_differs"] == ["img"]:
                mech = "oldstyle-generator-makes-return-annotation-transparent"
            rec.violation("annotation-mutated", case, f"annotation objects {out['shared_differs']} mentioned by the history answer differently from freshly built equal ones", mechanism=mech)
    rec.info["battery_probes"] = len(base) + 14


def extra_coverage(agg, tier):
    c = agg["counters"]
    return {"fault_triples_dry_run": c.get("fault.triples_dry_run", 0), "fault_triples_injected": c.get("fault.triples_injected", 0), "fault_not_reached": c.get("fault.not_reached", 0)}


def replay(rec, case):
    warnings.filterwarnings("ignore")
    GT.ensure_registered()
    C04.ensure_faulty_registered()
    base = cold(["--battery-only"])["battery"]
    if case.get("cold"):
        out = cold(["--history", case["rngkey"]])
        if out.get("battery") != base or out.get("shared_differs"):
            rec.violation("history-dependence", case, f"cold history still deviates: {out.get('shared_differs')}", mechanism="replay")
        return
    shadowstore.attach()
    sh = Shared()
    ops = catalogue(sh)
    if "history" in case:
        for n in case["history"]:
            try:
                ops[n]()
            except BaseException:  # noqa
                pass
        check_after(rec, base, case, case["history"], sh, "history")
    else:
        user_files = {C04.__file__, real.__file__, GT.__file__, __file__}
        with FP.Injector(user_files) as inj:
            exc = FP.Injected if case["exc"] == "Injected" else FP.InjectedAbort
            inj.run_with_fault(ops[case["op"]], case["callout"], exc)
        check_after(rec, base, case, [case["op"]], sh, "fault")

"""Child of C04 / C08: isinstance checks made at every distance from the recursion limit.
At ordinary depth each case has a verdict V0 and leaves bindings B0 in the scope.  Near the limit the check may die
with RecursionError - but it never answers differently, and whenever it does not answer V0=True it leaves the scope's
bindings exactly as they were.  Prints one JSON object; judged by the parent."""
import contextlib
import io
import json
import sys
import typing
import warnings

warnings.filterwarnings("ignore")
import numpy as np  # noqa: E402

import jaxtyping  # noqa: E402
from jaxtyping import Float, Int, PyTree, jaxtyped  # noqa: E402

N = np.ndarray


def A(*shape, dtype="float32"):
    return np.zeros(shape, dtype=dtype)


class NT(typing.NamedTuple):
    p: int
    q: int


CASES = {
    "array/symbolic-with-calls/ok": (lambda: Float[N, "a b (lambda:(lambda:a+b)())()"], lambda: A(3, 4, 7)),
    "array/symbolic-with-calls/no": (lambda: Float[N, "a b (lambda:(lambda:a+b)())()"], lambda: A(3, 4, 8)),
    "array/variadic-then-call/ok": (lambda: Float[N, "a *rest (lambda:7)()"], lambda: A(2, 3, 4, 7)),
    "array/variadic-then-call/no": (lambda: Float[N, "a *rest (lambda:7)()"], lambda: A(2, 3, 4, 8)),
    "array/plain/no-late": (lambda: Float[N, "a b c d 5"], lambda: A(1, 2, 3, 4, 6)),
    "pytree/union-leaf-first-binds-then-fails/ok": (lambda: PyTree[typing.Union[Float[N, "a b 9"], Float[N, "a c 4"]]], lambda: [A(3, 5, 4), A(3, 5, 4)]),
    "pytree/tuple-leaf/ok": (lambda: PyTree[tuple[int, int]], lambda: [(1, 2), {"k": (3, 4)}]),
    "pytree/namedtuple-leaf/ok": (lambda: PyTree[NT], lambda: [NT(1, 2), (NT(3, 4),)]),
    "pytree/nested/ok": (lambda: PyTree[PyTree[Float[N, "a"]]], lambda: [[A(3)], {"k": A(3)}]),
    "pytree/arrays/ok": (lambda: PyTree[Float[N, "a b"]], lambda: [A(3, 4), (A(3, 4), A(3, 4))]),
    "pytree/arrays/no-late": (lambda: PyTree[Float[N, "a b"]], lambda: [A(3, 4), (A(3, 4), A(3, 5))]),
    "pytree/structure-name/ok": (lambda: PyTree[Int[N, "a"], "T"], lambda: (A(3, dtype="int32"), [A(3, dtype="int32")])),
    "pytree/question-axis/ok": (lambda: PyTree[Float[N, "?r 2"], "S"], lambda: (A(3, 2), A(5, 2))),
}


def bindings_text():
    buf = io.StringIO()
    with contextlib.redirect_stdout(buf):
        jaxtyping.print_bindings()
    return buf.getvalue()


def at_depth(n, thunk):
    if n <= 0:
        return thunk()
    return at_depth(n - 1, thunk)


def one(ann, val, depth):
    with jaxtyped("context"):
        isinstance(A(2), Float[N, "z"])  # the scope is not empty
        before = bindings_text()
        try:
            got = "ok" if at_depth(depth, lambda: isinstance(val, ann)) else "no"
        except RecursionError:
            got = "RecursionError"
        except Exception as e:  # noqa
            got = "exc:" + type(e).__name__
        after = bindings_text()
    return got, before, after


def main():
    import inspect

    limit = sys.getrecursionlimit()
    base = len(inspect.stack(0))
    margins = list(range(2, int(sys.argv[1])))
    only = sys.argv[2].split(",") if len(sys.argv) > 2 else None
    out = {"limit": limit, "cases": []}
    for name, (mk_ann, mk_val) in CASES.items():
        if only and not any(name.startswith(o) for o in only):
            continue
        ann, val = mk_ann(), mk_val()
        got0, before0, after0 = one(ann, val, 0)
        for m in margins:
            ann, val = mk_ann(), mk_val()  # a fresh annotation object for every attempt
            got, before, after = one(ann, val, limit - base - m)
            out["cases"].append({"case": name, "margin": m, "baseline": got0, "got": got, "after_is_baseline": after == after0, "after_is_before": after == before, "after": after[-200:] if after not in (after0, before) else ""})
    print(json.dumps(out))


main()

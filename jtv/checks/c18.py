"""C18 — cached bytecode never makes a module run with the wrong instrumentation.

Offline checker over recorded histories of >=2 runs sharing one __pycache__: every run is
a fresh subprocess with bytecode writing enabled; its configuration chooses which modules
are hooked, the typechecker, the import order and optionally follows a source edit. The
expected state of every module is a stateless function of (current source, current hook
configuration): the cache must be unobservable.
"""

from __future__ import annotations

import json
import os
import random
import shutil
import subprocess
import sys
import tempfile
import time
import warnings

from . import c11 as C11

LEVEL = "exploration"
TECHNIQUE = "runtime monitoring, offline history checker: sequences of 2-5 runs (fresh subprocesses, bytecode writing enabled) over one cache directory, each with its own hook set / typechecker / import order / source edit; per run and module the observed (instrumented?, by which spy, source version) is compared with the stateless expectation; .pyc files created per run are recorded; runs under python -O / -OO and -B, sources older than the library, re-hooking with another typechecker in one process, imports started deep inside the call stack (dense sweep of distances from the recursion limit), damaged cache entries, imports concurrent with a hooked load in another thread, and a source file saved again DURING its import (an audit hook performs the save at a chosen moment: before the read, at compile(), before the cache write); every module also reports __debug__, whether its assert fires and whether it has a docstring: the code executed was compiled for this run's optimisation level; runs in which a second copy of the library takes over after the first has served a hooked import"
LEVEL_TEXT = (
    "Held on every generated history explored (each run a real interpreter start with PYTHONDONTWRITEBYTECODE unset, which "
    "this sandbox otherwise sets - the repository's suite can never read a cache back). Sampling over histories."
)
LEVEL_NOTE = "Source edits bump the file's mtime by +2 s explicitly so that CPython's own size/mtime validation cannot be blamed; expected state uses C11's import-order model."
RULE = (
    "one case = one history of 2-5 runs over a 4-7 module forest; non-trivial = some module's hook status or typechecker "
    "differs between two runs of the history, or a source edit happens between runs; distinct by (forest, run configurations)."
)
ASSUMPTIONS = ["the observation of a module = wrapper presence + spy log + ill-typed call + VERSION constant of its source"]
HISTORIES = {"quick": 5, "thorough": 100}
NSHARDS = 16
SHARD_TIMEOUT = {"quick": 900, "thorough": 3600}
POOL = ["amod", "bmod", "cmod", "pkg", "pkg.sub", "pkg.sub2", "pkgx", "dmod"]


def shards(tier):
    return [{"i": i} for i in range(NSHARDS)]


def required_counters(tier):
    return {
        "histories": 60,
        "runs": 200,
        "module_observations": 800,
        "status_flips.plain_to_hooked": 30,
        "status_flips.hooked_to_plain": 30,
        "status_flips.checker_changed": 30,
        "source_edits": 30,
        "nested_unhooked_inside_hooked": 30,
        "nested_hooked_inside_unhooked": 10,
        "pyc_files_created": 200,
        "runs_with_cache_present": 100, "runs_with_failing_hooked_import": 20, "runs_read_only_cache": 20, "in_process_reimport": 5, "in_process_edit_and_reimport": 5, "runs_with_checking_disabled": 15, "source_edits.same_mtime_other_size": 10, "in_process_rehook_with_other_checker": 5, "histories.sources_older_than_the_library": 20, "runs_python_O": 30, "histories.pycache_blocked": 5, "corrupt_cache.scenarios": 4, "concurrent_imports.scenarios": 1, "deep_import.modules": 10, "edit_during_import.scenarios": 8, "optimisation_level_observations": 500, "runs_with_foreign_cache_from_source_patch": 15, "runs_with_a_second_copy_of_the_library": 8,
    }


BROKEN = "brokenmod"
SPYHELPER = "spyhelper"


def write_forest(root, mods, versions):
    C11.write_forest(root, mods)
    # the spy typechecker module itself imports a project module that later runs may hook
    with open(os.path.join(root, "spychk.py"), "w") as f:
        f.write(C11.SPY + "\nimport spyhelper  # (last: a hooked spyhelper may call back into this module while it loads)\n")
    with open(os.path.join(root, BROKEN + ".py"), "w") as f:
        f.write("def f(:\n    pass\n")  # does not compile
    with open(os.path.join(root, "jtv_firstcopy_mod.py"), "w") as f:
        f.write("X = 1\n")  # (served through the hook by the FIRST copy of the library in 'second_copy' runs)
    for m in mods:
        set_version(root, mods, m, versions[m], bump=False)


def mod_path(root, mods, m):
    parts = m.split(".")
    if mods[m]["kind"] == "pkg":
        return os.path.join(root, *parts, "__init__.py")
    return os.path.join(root, *parts[:-1], parts[-1] + ".py")


def set_version(root, mods, m, v, bump=True, same_mtime=False):
    """rewrite the module with a new VERSION constant. bump: mtime +2 s (size may stay equal);
    same_mtime: the mtime is put back to its old value but the SIZE changes (cp -p / tar extraction)"""
    p = mod_path(root, mods, m)
    src = open(p).read()
    lines = [l for l in src.splitlines() if not l.startswith("VERSION = ")]
    st = os.stat(p)
    pad = "  # " + "x" * (v % 7 + 1) if same_mtime else ""
    with open(p, "w") as f:
        f.write("\n".join(lines) + f"\nVERSION = {v}{pad}\n")
    if same_mtime:
        os.utime(p, ns=(st.st_atime_ns, st.st_mtime_ns))
        assert os.stat(p).st_size != st.st_size
    elif bump:
        os.utime(p, (st.st_atime, st.st_mtime + 2))
    else:
        os.utime(p, (st.st_atime, st.st_mtime - 10))


def pycs(root):
    out = set()
    for dp, dn, fn in os.walk(root):
        if os.path.basename(dp) == "__pycache__":
            for f in fn:
                out.add(os.path.relpath(os.path.join(dp, f), root))
    return out


def gen_run(rng, mods):
    names = sorted(mods)
    ops = []
    r = rng.random()
    if r < 0.15:
        pass  # no hook at all
    else:
        k = rng.choice((1, 1, 2, 3))
        hooked = rng.sample(names, min(k, len(names)))
        chk = rng.choice(("spychk.A", "spychk.B", "spychk.A", None))
        ops.append({"op": "install", "h": 0, "names": hooked, "checker": chk})
        if rng.random() < 0.2:
            ops.append({"op": "install", "h": 1, "names": rng.sample(names, 1), "checker": rng.choice(("spychk.A", "spychk.B"))})
    order = names[:]
    rng.shuffle(order)
    for m in order[: rng.randint(2, len(order))]:
        ops.append({"op": "import", "module": m})
    if ops and ops[0]["op"] == "install" and rng.random() < 0.35:
        # the hook is removed and a module is imported AGAIN in the same process (reload), sometimes after
        # its source was edited: it must come back unmodified, and must not poison the hook's cache file
        for o in [o for o in ops if o["op"] == "install"]:
            ops.append({"op": "uninstall", "h": o["h"]})
        loaded = [o["module"] for o in ops if o["op"] == "import"]
        if loaded:
            m = rng.choice(loaded)
            if rng.random() < 0.4:
                # ... or a NEW hook (another typechecker, or none) is installed for it before it is imported again:
                # the same file is compiled twice in one process under two hook configurations
                first = next(o for o in ops if o["op"] == "install")
                other = rng.choice([c for c in ("spychk.A", "spychk.B", None) if c != first["checker"]])
                ops.append({"op": "install", "h": 2, "names": [m], "checker": other})
            ops.append({"op": "edit_reimport" if rng.random() < 0.5 else "reimport", "module": m})
    imports_at = [i for i, o in enumerate(ops) if o["op"] == "import"]
    if ops and ops[0]["op"] == "install" and len(imports_at) >= 2 and rng.random() < 0.25:
        # another tool replaces importlib's cache_from_source for a while and later restores what it had found
        # (typeguard 2.x's own import hook, beartype.claw): hooked modules imported afterwards still get the hook's cache file
        end = rng.choice(imports_at[1:])
        ops.insert(end, {"op": "foreign_patch_end"})
        ops.insert(rng.choice((0, 1)), {"op": "foreign_patch_begin"})
    if ops and ops[0]["op"] == "install" and rng.random() < 0.12:
        ops.insert(0, {"op": "second_copy"})
    if rng.random() < 0.3:
        # an optional module that fails to compile, hooked or not, somewhere among the imports
        if ops and ops[0]["op"] == "install" and rng.random() < 0.7:
            nm = ops[0]["names"]
            ops[0]["names"] = ([nm] if isinstance(nm, str) else list(nm)) + [BROKEN]
        ops.insert(rng.randint(1 if ops and ops[0]["op"] == "install" else 0, len(ops)), {"op": "import_failing", "module": BROKEN})
    return ops


def run_history(rec, rng, key):
    chosen = set(rng.sample(POOL, rng.randint(4, 7)))
    if "pkg.sub" in chosen or "pkg.sub2" in chosen:
        chosen.add("pkg")
    mods = {}
    for m in sorted(chosen):
        mods[m] = {"deps": [], "kind": "pkg" if any(o.startswith(m + ".") for o in chosen) else "mod"}
    mods[SPYHELPER] = {"deps": [], "kind": "mod"}
    names = sorted(mods)
    for i, m in enumerate(names):
        cands = names[i + 1 :]
        # imports in both directions of hooked/unhooked arise from the random hook sets
        mods[m]["deps"] = rng.sample([c for c in cands if c != SPYHELPER], min(rng.choice((0, 1, 1, 2)), len([c for c in cands if c != SPYHELPER]))) if m != SPYHELPER else []
    versions = {m: 1 for m in mods}
    root = tempfile.mkdtemp(prefix="jtv_c18_")
    history = []
    prev_status = {}
    try:
        write_forest(root, mods, versions)
        if rng.random() < 0.5:
            # sources that are OLDER than the installed library (a checkout restored with its timestamps, an
            # archive, rsync -t): every later edit bumps the mtime by 2 s and so stays in the past as well
            for m in mods:
                os.utime(mod_path(root, mods, m), (1_000_000_000, 1_000_000_000))
            rec.count("histories.sources_older_than_the_library")
        blocked = rng.random() < 0.25
        if blocked:
            # no __pycache__ directory can be created or read (a FILE of that name sits in every package directory -
            # the run is root, permission bits would not stop it): nothing may be cached anywhere else under a name
            # that forgets the hook configuration
            for dp, dn, fn in os.walk(root):
                if os.path.basename(dp) != "__pycache__" and not os.path.exists(os.path.join(dp, "__pycache__")):
                    open(os.path.join(dp, "__pycache__"), "w").close()
            rec.count("histories.pycache_blocked")
        nruns = rng.randint(2, 5)
        rec.count("histories")
        for ri in range(nruns):
            edited = []
            if ri > 0 and rng.random() < 0.35:
                m = rng.choice(names)
                versions[m] += 1
                same_mtime = rng.random() < 0.4
                set_version(root, mods, m, versions[m], same_mtime=same_mtime)
                edited.append(m + (" (same mtime, other size)" if same_mtime else ""))
                rec.count("source_edits")
                if same_mtime:
                    rec.count("source_edits.same_mtime_other_size")
            ops = gen_run(rng, mods)
            for o in ops:
                if o["op"] == "edit_reimport":
                    versions[o["module"]] += 1
                    o["version"] = versions[o["module"]]
                    rec.count("in_process_edit_and_reimport")
                elif o["op"] == "reimport":
                    rec.count("in_process_reimport")
                if o["op"] == "install" and o["h"] == 2:
                    rec.count("in_process_rehook_with_other_checker")
            if any(o["op"] == "import_failing" for o in ops):
                rec.count("runs_with_failing_hooked_import")
            before = pycs(root)
            env = dict(os.environ)
            env.pop("PYTHONDONTWRITEBYTECODE", None)
            # some later runs only READ the cache (python -B): reading still happens
            nowrite = ri > 0 and rng.random() < 0.25
            if nowrite:
                rec.count("runs_read_only_cache")
            # some runs have checking switched off in the environment: decoration still happens, calls pass through
            disabled = rng.random() < 0.15
            env.pop("JAXTYPING_DISABLE", None)
            if disabled:
                env["JAXTYPING_DISABLE"] = "1"
                rec.count("runs_with_checking_disabled")
            env["PYTHONPYCACHEPREFIX"] = ""
            env.pop("PYTHONPYCACHEPREFIX", None)
            env["HOME"] = root  # per-user cache locations, if anything uses them, stay inside this history
            env.pop("XDG_CACHE_HOME", None)
            env.pop("JAXTYPING_CACHE_DIR", None)
            spec = {"root": root, "ops": ops, "mode": "api", "extra": None}
            # some runs use an optimizing interpreter (python -O / -OO): ordinary modules then read and write
            # *.opt-1.pyc / *.opt-2.pyc, and the hook's cache entries must stay apart from those as well
            optimize = rng.choice((0, 0, 0, 0, 1, 1, 2))
            if optimize:
                rec.count("runs_python_O")
            r = subprocess.run([sys.executable] + (["-O"] if optimize == 1 else ["-OO"] if optimize == 2 else []) + ["-c", "import sys; sys.dont_write_bytecode = %s; sys.argv = ['c11_child', sys.argv[1]]; import runpy; runpy.run_path(%r, run_name='__main__')" % (nowrite, C11.CHILD), json.dumps(spec)], capture_output=True, text=True, env=env, timeout=600, cwd=root)
            try:
                out = json.loads(r.stdout.strip().splitlines()[-1])
            except Exception:
                out = {"error": f"rc={r.returncode} {r.stderr[-500:]}"}
            after = pycs(root)
            created = sorted(after - before)
            rec.count("runs")
            if any(o["op"] == "second_copy" for o in ops):
                rec.count("runs_with_a_second_copy_of_the_library")
            if any(o["op"] == "foreign_patch_begin" for o in ops):
                rec.count("runs_with_foreign_cache_from_source_patch")
            rec.count("pyc_files_created", len(created))
            if before:
                rec.count("runs_with_cache_present")
            history.append({"run": ri, "ops": ops, "edited": edited, "python_optimize": optimize, "read_only_cache": nowrite, "JAXTYPING_DISABLE": disabled, "pyc_created": created[:12]})
            case = {"rngkey": key, "forest": mods, "history": history}
            if "error" in out:
                import re as _re

                if _re.search(r"KeyError: '[0-9a-f]{32}'", out["error"]) or _re.search(r"KeyError: '0'", out["error"]):
                    # a module executed bytecode whose decorators look up a typechecker that THIS run never registered:
                    # code instrumented for another hook configuration was served from a cache
                    rec.violation("wrong-instrumentation", case, f"run {ri}: an import failed with {out['error'].strip().splitlines()[0][:160]} - bytecode instrumented for a typechecker this run did not install", mechanism="cache-serves-code-instrumented-for-another-typechecker")
                    return case
                rec.inconclusive.append("run failed: " + out["error"])
                return case
            if ri == 0 and not created and not blocked:
                rec.inconclusive.append("bytecode was not written in the first run: the cache is not being exercised")
                return case
            exp, stats = C11.expected(mods, ops, spy_imports=SPYHELPER)
            # nested-import statistics in terms of hooked/unhooked
            for m, st in exp.items():
                for dep in mods[m]["deps"]:
                    if dep in exp:
                        if st is not None and exp[dep] is None:
                            rec.count("nested_unhooked_inside_hooked")
                        if st is None and exp[dep] is not None:
                            rec.count("nested_hooked_inside_unhooked")
            for m, want in exp.items():
                got = out["modules"].get(m)
                if got is None:
                    rec.violation("import-model", case, f"run {ri}: model expected {m} imported", mechanism="import-model-mismatch")
                    return case
                rec.count("module_observations")
                ps = prev_status.get(m, "never")
                if ps != "never" and ps != want:
                    rec.count("status_flips." + ("plain_to_hooked" if ps is None else "hooked_to_plain" if want is None else "checker_changed"))
                if got["version"] != versions[m]:
                    rec.violation("stale-source", case, f"run {ri}: module {m} runs source version {got['version']}, current source is version {versions[m]}", mechanism="stale-source-version")
                    return case
                # the code that runs was compiled for THIS interpreter's optimisation level (asserts, __debug__, docstrings)
                want_level = {"debug_constant": optimize == 0, "assert": "assert-ran" if optimize == 0 else "no-assert", "has_docstring": optimize < 2}
                got_level = {k: got.get(k) for k in want_level}
                rec.count("optimisation_level_observations")
                if got_level != want_level:
                    rec.violation("wrong-optimisation-level", case, f"run {ri} (python {'-O' * bool(optimize)}{'O' * (optimize == 2)} level {optimize}): module {m} ({'plain' if want is None else 'hooked'}) executes code with {got_level}, this interpreter compiles {want_level}; earlier runs: {[h['python_optimize'] for h in history[:-1]]}", mechanism=f"cache-serves-code-compiled-for-another-optimisation-level-to-{'unhooked' if want is None else 'hooked'}-module")
                    return case
                if want is None:
                    ok = not got["wrapped"] and not got["spies"] and got["ill_typed"] == "ran"
                elif want == "none-checker":
                    ok = got["wrapped"] and not got["spies"] and got["ill_typed"] == "ran"
                elif disabled:
                    ok = got["wrapped"] and set(got["spies"]) == {want} and got["ill_typed"] == "ran"
                else:
                    ok = got["wrapped"] and set(got["spies"]) == {want} and got["ill_typed"] == "TypeCheckError"
                if not ok:
                    was = "first-load" if ps == "never" else f"was-{'plain' if ps is None else ps}"
                    now = "plain" if want is None else want
                    rec.violation(
                        "wrong-instrumentation",
                        case,
                        f"run {ri}: module {m} should be {now} (previous runs: {was}) but is wrapped={got['wrapped']} spies={got['spies']} ill-typed->{got['ill_typed']}; pyc created so far {sorted(after)[:10]}",
                        mechanism=f"cache-serves-{'uninstrumented' if not got['wrapped'] else 'instrumented'}-code-to-{'unhooked' if want is None else 'hooked'}-module",
                    )
                    return case
            for m, want in exp.items():
                prev_status[m] = want
        rec.case((json.dumps(mods, sort_keys=True), json.dumps([h["ops"] for h in history])), nontrivial=True)
        return {"rngkey": key, "forest": mods, "history": history}
    finally:
        shutil.rmtree(root, ignore_errors=True)


DEEP_MOD = '''
import numpy as np
from jaxtyping import Float
BIG = {big}
def f(x: Float[np.ndarray, "a"], y: Float[np.ndarray, "a"]):
    return "ran"
'''
DEEP_CHILD = r'''
import importlib, json, sys, warnings
warnings.filterwarnings("ignore")
import numpy as np, jaxtyping, typeguard
sys.path.insert(0, sys.argv[1])
margins = json.loads(sys.argv[2])
out = {{}}
def at_depth(n, thunk):
    if n <= 0:
        return thunk()
    return at_depth(n - 1, thunk)
hook = jaxtyping.install_import_hook([f"jtv_deep_{{m}}" for m in margins], "typeguard.typechecked")
for m in margins:
    name = f"jtv_deep_{{m}}"
    try:
        if m == 0:
            mod = importlib.import_module(name)
        else:
            mod = at_depth(sys.getrecursionlimit() - m, lambda: importlib.import_module(name))
    except RecursionError:
        sys.modules.pop(name, None)
        out[str(m)] = {{"import": "RecursionError"}}
        continue
    except Exception as e:
        sys.modules.pop(name, None)
        out[str(m)] = {{"import": "exc:" + type(e).__name__}}
        continue
    o = {{"import": "ok", "wrapped": hasattr(mod.f, "__wrapped__")}}
    try:
        o["ill"] = mod.f(np.zeros(2, dtype="float32"), np.zeros(3, dtype="float32"))
    except Exception as e:
        o["ill"] = "exc:" + type(e).__name__
    out[str(m)] = o
hook.uninstall()
print(json.dumps(out))
'''


def arm_deep_import(rec):
    """run 1 imports hooked modules (each with a long expression) from deep inside the call stack, at a sweep of
    distances from the recursion limit: an import either fails with RecursionError or yields an instrumented module;
    run 2 (fresh process, same hook, ordinary depth, cache written by run 1 present) must find every module
    instrumented and checking"""
    root = tempfile.mkdtemp(prefix="jtv_c18_deep_")
    try:
        # dense close to the limit (a visitor that is iterative over statements only overflows in the last few dozen
        # frames), sparse further away (a recursive one overflows hundreds of frames early)
        margins = list(range(2, 80, 2)) + list(range(80, 700, 40))
        big = " + ".join(["1"] * 150)
        for m in margins:
            with open(os.path.join(root, f"jtv_deep_{m}.py"), "w") as f:
                f.write(DEEP_MOD.format(big=big))
        env = dict(os.environ)
        env.pop("PYTHONDONTWRITEBYTECODE", None)
        env.pop("JAXTYPING_DISABLE", None)
        outs = []
        for run, ms in enumerate((margins, [0] * 0 + margins)):
            script = DEEP_CHILD.format()
            arg = json.dumps(ms if run == 0 else [0])
            if run == 1:
                # ordinary depth: every module by its own name
                script = script.replace('margins = json.loads(sys.argv[2])', 'names = json.loads(sys.argv[2]); margins = names').replace('if m == 0:', 'if True:')
                arg = json.dumps(margins)
            r = subprocess.run([sys.executable, "-c", script, root, arg], capture_output=True, text=True, env=env, timeout=600, cwd=root)
            try:
                outs.append(json.loads(r.stdout.strip().splitlines()[-1]))
            except Exception:
                rec.inconclusive.append(f"deep-import child (run {run}) failed: {r.stderr[-300:]}")
                return
        r1, r2 = outs
        rec.count("deep_import.modules", len(margins))
        rec.count("deep_import.recursion_errors_in_run1", sum(1 for v in r1.values() if v["import"] == "RecursionError"))
        for m in margins:
            a, b = r1[str(m)], r2[str(m)]
            rec.case(("deep-import", m), True)
            case = {"deep_import": True, "frames_below_recursion_limit": m, "run1": a, "run2": b}
            if a["import"] == "ok" and (not a["wrapped"] or a["ill"] != "exc:TypeCheckError"):
                rec.violation("wrong-instrumentation", case, f"run 1: hooked module imported {m} frames below the recursion limit came back wrapped={a['wrapped']}, ill-typed call -> {a['ill']}", mechanism="deep-import-yields-uninstrumented-module")
                return
            if b["import"] != "ok" or not b["wrapped"] or b["ill"] != "exc:TypeCheckError":
                rec.violation("wrong-instrumentation", case, f"run 2 (ordinary depth, same hook, cache from run 1 in which the import {('succeeded' if a['import'] == 'ok' else 'failed with ' + a['import'])}): module is wrapped={b.get('wrapped')}, ill-typed call -> {b.get('ill')}, import {b['import']}", mechanism="cache-serves-uninstrumented-code-to-hooked-module")
                return
    finally:
        shutil.rmtree(root, ignore_errors=True)


CORRUPT_CHILD = r'''
import importlib, json, sys, warnings
warnings.filterwarnings("ignore")
import numpy as np, jaxtyping
sys.path.insert(0, sys.argv[1])
hooked = sys.argv[2] == "hooked"
out = {}
hook = jaxtyping.install_import_hook(["jtv_corrupt_mod"], "typeguard.typechecked") if hooked else None
try:
    mod = importlib.import_module("jtv_corrupt_mod")
    out = {"import": "ok", "wrapped": hasattr(mod.f, "__wrapped__")}
    try:
        out["ill"] = mod.f(np.zeros(2, dtype="float32"), np.zeros(3, dtype="float32"))
    except Exception as e:
        out["ill"] = "exc:" + type(e).__name__
except BaseException as e:
    out = {"import": "exc:" + type(e).__name__}
if hook is not None:
    hook.uninstall()
print(json.dumps(out))
'''


def arm_corrupt_cache(rec, rng):
    """run 1 (hooked) writes the hook's cache entry; its payload is then damaged (header intact); run 2 (hooked)
    may fail to import - as plain Python does on a damaged .pyc - or import the module instrumented, never
    uninstrumented; run 3 (no hook) gets the plain module"""
    for damage in ("truncate-payload", "garbage-payload", "half-payload"):
        root = tempfile.mkdtemp(prefix="jtv_c18_corrupt_")
        try:
            with open(os.path.join(root, "jtv_corrupt_mod.py"), "w") as f:
                f.write(DEEP_MOD.format(big="1 + 1"))
            env = dict(os.environ)
            env.pop("PYTHONDONTWRITEBYTECODE", None)
            env.pop("JAXTYPING_DISABLE", None)
            env["HOME"] = root

            def run(mode):
                r = subprocess.run([sys.executable, "-c", CORRUPT_CHILD, root, mode], capture_output=True, text=True, env=env, timeout=600, cwd=root)
                try:
                    return json.loads(r.stdout.strip().splitlines()[-1])
                except Exception:
                    return {"import": "child-failed: " + r.stderr[-200:]}

            if rng.random() < 0.5:
                run("plain")  # a stock .pyc exists as well
            r1 = run("hooked")
            tagged = [p for p in pycs(root) if "jaxtyping" in p]
            if r1.get("import") != "ok" or not tagged:
                rec.inconclusive.append(f"corrupt-cache arm: run 1 gave {r1}, tagged pycs {tagged}")
                continue
            for rel in tagged:
                p = os.path.join(root, rel)
                data = open(p, "rb").read()
                body = data[16:]
                new = {"truncate-payload": b"", "garbage-payload": bytes(rng.randrange(256) for _ in range(len(body))), "half-payload": body[: len(body) // 2]}[damage]
                with open(p, "wb") as f:
                    f.write(data[:16] + new)
            r2 = run("hooked")
            r3 = run("plain")
            rec.count("corrupt_cache.scenarios")
            rec.case(("corrupt-cache", damage), True)
            case = {"corrupt_cache": damage, "run2_hooked": r2, "run3_plain": r3}
            if r2.get("import") == "ok" and (not r2["wrapped"] or r2["ill"] != "exc:TypeCheckError"):
                rec.violation("wrong-instrumentation", case, f"hook cache entry damaged ({damage}): the hooked run imported the module wrapped={r2['wrapped']}, ill-typed call -> {r2['ill']}", mechanism="cache-serves-uninstrumented-code-to-hooked-module")
            elif r3.get("import") != "ok" or r3.get("wrapped") or r3.get("ill") != "ran":
                rec.violation("wrong-instrumentation", case, f"hook cache entry damaged ({damage}), then a run WITHOUT the hook: {r3}", mechanism="cache-serves-instrumented-code-to-unhooked-module")
        finally:
            shutil.rmtree(root, ignore_errors=True)


EDIT_MOD = """
import numpy as np
from jaxtyping import Float
VERSION = {version}
FILLER = {filler!r}
def f(x: Float[np.ndarray, "a"], y: Float[np.ndarray, "a"]):
    return "ran"
"""
EDIT_CHILD = r"""
import importlib, json, os, sys, warnings
warnings.filterwarnings("ignore")
import numpy as np, jaxtyping, typeguard
root, mode, moment, newsrc, bump = sys.argv[1], sys.argv[2], sys.argv[3], sys.argv[4], float(sys.argv[5])
sys.path.insert(0, root)
src = os.path.join(root, "jtv_edit_mod.py")
state = {"armed": moment != "never", "compiles": 0, "fired": None}
def save_now(where):
    # the editor / formatter / checkout that saves the file while this process is importing it
    state["armed"] = False
    state["fired"] = where
    st = os.stat(src)
    with open(src, "w") as f:
        f.write(open(newsrc).read())
    os.utime(src, (st.st_atime, st.st_mtime + bump))
def audit(ev, args):
    if not state["armed"]:
        return
    try:
        if ev == "open" and moment == "before-read" and args[0] == src:
            save_now("open(source)")
        elif ev == "compile" and args[1] == src:
            state["compiles"] += 1
            if moment == "compile-%d" % state["compiles"]:
                save_now("compile #%d" % state["compiles"])
        elif ev == "open" and moment == "before-cache-write" and isinstance(args[0], str) and "__pycache__" in args[0] and "jtv_edit_mod" in args[0] and state["compiles"]:
            save_now("open(cache file for writing)")
    except Exception:
        pass
sys.addaudithook(audit)
hook = jaxtyping.install_import_hook(["jtv_edit_mod"], "typeguard.typechecked") if mode == "hooked" else None
out = {}
try:
    mod = importlib.import_module("jtv_edit_mod")
    out = {"import": "ok", "version": mod.VERSION, "wrapped": hasattr(mod.f, "__wrapped__")}
    try:
        out["ill"] = mod.f(np.zeros(2, dtype="float32"), np.zeros(3, dtype="float32"))
    except Exception as e:
        out["ill"] = "exc:" + type(e).__name__
except BaseException as e:
    out = {"import": "exc:" + type(e).__name__}
state["armed"] = False
if hook is not None:
    hook.uninstall()
out["saved_at"] = state["fired"]
print(json.dumps(out))
"""


def arm_edit_during_import(rec, rng):
    """run 1 imports a module while it is being saved again (an audit hook - standard library, nothing in /repo - does
    the save at a chosen moment of the import: before the loader reads the file, at its first compile() call of that file,
    or just before the cache file is written). Whichever revision run 1 itself gets, every LATER run (fresh process,
    file untouched since) must execute the revision that is on disk, instrumented as that run's configuration says."""
    moments = ["before-read", "compile-1", "before-cache-write"]
    for moment in moments:
        for mode in ("hooked", "plain"):
            root = tempfile.mkdtemp(prefix="jtv_c18_edit_")
            try:
                same_size = rng.random() < 0.3
                bump = rng.choice([2.0, 2.0, 0.0]) if not same_size else 2.0
                v1 = EDIT_MOD.format(version=1, filler="x" * 10)
                v2 = EDIT_MOD.format(version=2, filler="x" * (10 if same_size else 13))
                with open(os.path.join(root, "jtv_edit_mod.py"), "w") as f:
                    f.write(v1)
                os.utime(os.path.join(root, "jtv_edit_mod.py"), (time.time() - 500, time.time() - 500))
                new = os.path.join(root, "next_revision.txt")
                with open(new, "w") as f:
                    f.write(v2)
                env = dict(os.environ)
                env.pop("PYTHONDONTWRITEBYTECODE", None)
                env.pop("JAXTYPING_DISABLE", None)

                def run(mode, moment):
                    r = subprocess.run([sys.executable, "-c", EDIT_CHILD, root, mode, moment, new, str(bump)], capture_output=True, text=True, env=env, timeout=600, cwd=root)
                    try:
                        return json.loads(r.stdout.strip().splitlines()[-1])
                    except Exception:
                        return {"import": "child-failed: " + r.stderr[-200:]}

                if rng.random() < 0.4:
                    run("plain" if mode == "hooked" else "hooked", "never")  # the other kind of cache entry exists already
                r1 = run(mode, moment)
                if r1.get("import") != "ok" or not r1.get("saved_at"):
                    rec.inconclusive.append(f"edit-during-import arm ({mode}, {moment}): run 1 gave {r1}")
                    continue
                rec.count("edit_during_import.scenarios")
                rec.count(f"edit_during_import.saved_at.{moment}")
                rec.count("edit_during_import.run1_executed_the_old_revision", int(r1["version"] == 1))
                later = [mode, "plain" if mode == "hooked" else "hooked", mode]
                for i, m2 in enumerate(later):
                    r = run(m2, "never")
                    rec.case(("edit-during-import", moment, mode, i, m2), True)
                    case = {"edit_during_import": moment, "run1_mode": mode, "run1": r1, "later_run": i + 2, "later_mode": m2, "later": r, "mtime_bump_s": bump, "same_size": same_size}
                    if r.get("import") != "ok":
                        rec.violation("wrong-instrumentation", case, f"run {i + 2} ({m2}) after a run whose import of the module overlapped a save ({moment}): {r}", mechanism="import-fails-after-edit-during-import")
                        break
                    if r["version"] != 2:
                        rec.violation("stale-source", case, f"run 1 ({mode}) imported the module while it was being saved ({r1['saved_at']}, mtime +{bump}s{', same size' if same_size else ''}); run {i + 2} ({m2}), with the file untouched since, runs source version {r['version']}, current source is version 2", mechanism="stale-source-after-edit-during-import")
                        break
                    want = {"wrapped": True, "ill": "exc:TypeCheckError"} if m2 == "hooked" else {"wrapped": False, "ill": "ran"}
                    if {k: r[k] for k in ("wrapped", "ill")} != want:
                        rec.violation("wrong-instrumentation", case, f"run {i + 2} ({m2}) after an edit during run 1's import: {r}", mechanism="cache-serves-instrumented-code-to-unhooked-module" if m2 == "plain" else "cache-serves-uninstrumented-code-to-hooked-module")
                        break
            finally:
                shutil.rmtree(root, ignore_errors=True)


CONCURRENT_CHILD = r'''
import importlib, json, sys, threading, time, warnings
warnings.filterwarnings("ignore")
import numpy as np, jaxtyping
sys.path.insert(0, sys.argv[1])
mode, smalls = sys.argv[2], json.loads(sys.argv[3])
def obs(name):
    mod = sys.modules[name]
    o = {"wrapped": hasattr(mod.f, "__wrapped__")}
    try:
        o["ill"] = mod.f(np.zeros(2, dtype="float32"), np.zeros(3, dtype="float32"))
    except Exception as e:
        o["ill"] = "exc:" + type(e).__name__
    return o
out = {}
if mode == "concurrent":
    hook = jaxtyping.install_import_hook(["jtv_big"], "typeguard.typechecked")
    started = threading.Event()
    def big():
        started.set()
        importlib.import_module("jtv_big")
    def small():
        started.wait(30)
        for nme in smalls:
            time.sleep(0.02)
            importlib.import_module(nme)
    ta, tb = threading.Thread(target=big), threading.Thread(target=small)
    ta.start(); tb.start(); ta.join(300); tb.join(300)
    hook.uninstall()
    out["big"] = obs("jtv_big")
elif mode == "hooked":
    with jaxtyping.install_import_hook(smalls, "typeguard.typechecked"):
        for nme in smalls:
            importlib.import_module(nme)
else:
    for nme in smalls:
        importlib.import_module(nme)
for nme in smalls:
    out[nme] = obs(nme)
print(json.dumps(out))
'''


def arm_concurrent_imports(rec):
    """run 1: one thread imports a LARGE hooked module (its compilation takes a while) while another thread imports
    small modules that no hook covers; run 2 (fresh process) hooks the small modules; run 3 uses no hook. Every module
    is, in every run, what that run's configuration calls for"""
    root = tempfile.mkdtemp(prefix="jtv_c18_conc_")
    try:
        big = DEEP_MOD.format(big="1") + "".join(f"def g_{i}(a: int, b: str = 'x') -> int:\n    return a + {i}\n" for i in range(4000))
        open(os.path.join(root, "jtv_big.py"), "w").write(big)
        smalls = [f"jtv_small_{k}" for k in range(8)]
        for nme in smalls:
            open(os.path.join(root, nme + ".py"), "w").write(DEEP_MOD.format(big="2"))
        env = dict(os.environ)
        env.pop("PYTHONDONTWRITEBYTECODE", None)
        env.pop("JAXTYPING_DISABLE", None)

        def run(mode):
            r = subprocess.run([sys.executable, "-c", CONCURRENT_CHILD, root, mode, json.dumps(smalls)], capture_output=True, text=True, env=env, timeout=900, cwd=root)
            try:
                return json.loads(r.stdout.strip().splitlines()[-1])
            except Exception:
                return {"error": r.stderr[-300:]}

        r1 = run("concurrent")
        tagged_small = sorted(p for p in pycs(root) if "jaxtyping" in p and "small" in p)
        r2 = run("hooked")
        r3 = run("plain")
        if any("error" in r for r in (r1, r2, r3)):
            rec.inconclusive.append(f"concurrent-import arm: a child failed: {[r.get('error') for r in (r1, r2, r3)]}")
            return
        rec.count("concurrent_imports.scenarios")
        rec.count("concurrent_imports.small_modules_cached_under_hook_tag_in_run1", len(tagged_small))
        rec.case(("concurrent-imports",), True)
        case = {"concurrent_imports": True, "pyc_with_hook_tag_for_unhooked_modules_after_run1": tagged_small[:6]}
        for nme in smalls:
            if r1[nme] != {"wrapped": False, "ill": "ran"}:
                rec.violation("wrong-instrumentation", dict(case, run=1, module=nme), f"run 1: {nme} (no hook covers it) imported while another thread was loading a hooked module: {r1[nme]}", mechanism="concurrent-import-instrumented-by-other-threads-hook")
                return
            if r2[nme] != {"wrapped": True, "ill": "exc:TypeCheckError"}:
                rec.violation("wrong-instrumentation", dict(case, run=2, module=nme), f"run 2 hooks {nme}: it comes back {r2[nme]} - run 1 had imported it UNhooked in one thread while another thread was loading a hooked module, and cached it under the hook's tag ({tagged_small[:3]})", mechanism="concurrent-import-during-hooked-load-cached-under-hook-tag")
                return
            if r3[nme] != {"wrapped": False, "ill": "ran"}:
                rec.violation("wrong-instrumentation", dict(case, run=3, module=nme), f"run 3 (no hook): {nme} comes back {r3[nme]}", mechanism="cache-serves-instrumented-code-to-unhooked-module")
                return
    finally:
        shutil.rmtree(root, ignore_errors=True)


def run_shard(rec, seed, shard, tier):
    warnings.filterwarnings("ignore")
    if shard["i"] == 3:
        arm_concurrent_imports(rec)
    if shard["i"] in (4, 5):
        arm_edit_during_import(rec, random.Random(f"{seed}/C18/{shard['i']}/edit"))
    if shard["i"] == 0:
        arm_deep_import(rec)
    if shard["i"] in (1, 2):
        arm_corrupt_cache(rec, random.Random(f"{seed}/C18/{shard['i']}/corrupt"))
    for k in range(HISTORIES[tier]):
        key = f"{seed}/C18/{shard['i']}/{k}"
        case = run_history(rec, random.Random(key), key)
        if k == 0 and shard["i"] == 0:
            rec.sample(case)


def replay(rec, case):
    run_history(rec, random.Random(case["rngkey"]), case["rngkey"])

"""C11 — the import hook instruments exactly the named packages, only while installed.

Each history (install / import / uninstall operations over a generated package forest)
runs in a fresh subprocess that records, per module, whether its functions were wrapped,
which spy typechecker was asked to wrap them, and whether an ill-typed call is rejected.
An offline checker compares with the stateless predicate of the statement.
"""

from __future__ import annotations

import json
import os
import random
import shutil
import subprocess
import sys
import tempfile
import warnings

LEVEL = "exploration"
TECHNIQUE = "runtime monitoring: recorded histories of install/import/uninstall operations over generated package forests (look-alike names, nested packages, cross imports, namespace and sourceless modules), each in a fresh process with spy typecheckers; offline checker against the predicate 'name == h or name.startswith(h + \".\") for a hook installed at first import, most recently installed hook first'; pytest option and IPython magic driven for a few histories; histories with ordinary .pyc files already present under python -B; a third of the histories call the hook API with warnings turned into errors; nested in-process pytest sessions inside the pytest arm"
LEVEL_TEXT = (
    "Held on every generated history explored (each in its own process). The expected instrumentation of every module is "
    "computed by a small model of Python's import order plus the statement's predicate; observed are the spy log, the "
    "wrapper presence and the behaviour of an ill-typed call. Sampling over forests and operation orders."
)
LEVEL_NOTE = "Trusts the child process's observation (spy typechecker log, __wrapped__, TypeCheckError) and the import-order model in this file."
RULE = (
    "one case = one history: forest (5-9 modules), 1-3 hooks with name sets and checkers, 3-10 operations; non-trivial = a "
    "look-alike sibling, a nested module or an import after uninstall occurs; distinct by (forest, operations)."
)
ASSUMPTIONS = ["a module counts as instrumented when its function has a jaxtyped wrapper (__wrapped__) or a spy logged it"]
HISTORIES = {"quick": 12, "thorough": 200}
NSHARDS = 16
SHARD_TIMEOUT = {"quick": 900, "thorough": 3600}

POOL = ["foo", "foobar", "foo_bar", "fo", "foo.sub", "foo.sub.deep", "foo.subx", "foobar.sub", "bar", "bar.foo", "barn", "ns.inner", "ns.inner2", "foo.sub_extra", "foo_sub", "bar_foo", "fooxsub", "foo_sub.deep"]  # (foo_sub / fooxsub: what a dotted hook name matches if its dot is read as a regex dot)


def shards(tier):
    return [{"i": i} for i in range(NSHARDS)]


def required_counters(tier):
    return {
        "histories": 100,
        "histories.with_plain_pyc_present": 15,
        "modules.instrumented": 200,
        "modules.not_instrumented": 200,
        "lookalike_not_instrumented": 30,
        "submodule_instrumented": 50,
        "import_after_uninstall": 30,
        "two_hooks_active": 30,
        "nested_import_inside_hooked": 30,
        "checker.None": 10,
        "checker.tuple_spelling": 5,
        "pytest_option_runs": 1,
        "histories.hook_api_with_warnings_as_errors": 10,
        "histories.same_hook_installed_twice": 10,
        "ipython_magic_runs": 1,
    }


MODULE_TMPL = '''"""module {name}"""
{imports}
import dataclasses
import numpy as np
from jaxtyping import Float

MARK = "{name}"

DEBUG = __debug__

def f(x: Float[np.ndarray, "a"], y: Float[np.ndarray, "a"]):
    return MARK

def with_assert():
    assert False, "asserts are compiled in"
    return "no-assert"

@dataclasses.dataclass
class D:
    x: Float[np.ndarray, "a b"]
'''

SPY = '''
import typeguard
LOG = []
def A(fn, *a, **k):
    LOG.append(("A", getattr(fn, "__module__", None), getattr(fn, "__qualname__", None)))
    return typeguard.typechecked(fn, always=True)  # (always: typeguard switches itself off under python -O)
def B(fn, *a, **k):
    LOG.append(("B", getattr(fn, "__module__", None), getattr(fn, "__qualname__", None)))
    return typeguard.typechecked(fn, always=True)
'''


def gen_forest(rng):
    """-> dict modname -> {'deps': [...], 'kind': 'pkg'|'mod'|'ns'}"""
    chosen = set(rng.sample(POOL, rng.randint(5, 9)))
    mods = {}
    for m in sorted(chosen):
        parts = m.split(".")
        for i in range(1, len(parts)):
            parent = ".".join(parts[:i])
            mods.setdefault(parent, {"deps": [], "kind": "ns" if parent == "ns" else "pkg"})
        if m not in mods:
            mods[m] = {"deps": [], "kind": "mod"}
    # has children -> package
    for m in list(mods):
        if any(o.startswith(m + ".") for o in mods) and mods[m]["kind"] == "mod":
            mods[m]["kind"] = "pkg"
    names = sorted(mods)
    order = {n: i for i, n in enumerate(names)}
    for m in names:
        if mods[m]["kind"] == "ns":
            continue
        # imports only go to modules later in sorted order or own children: no cycles
        cands = [o for o in names if order[o] > order[m] and mods[o]["kind"] != "ns"]
        k = rng.choice((0, 0, 1, 1, 2))
        mods[m]["deps"] = rng.sample(cands, min(k, len(cands)))
    return mods


def write_forest(root, mods):
    for m, info in mods.items():
        parts = m.split(".")
        if info["kind"] in ("pkg", "ns"):
            d = os.path.join(root, *parts)
            os.makedirs(d, exist_ok=True)
            if info["kind"] == "ns":
                continue
            path = os.path.join(d, "__init__.py")
        else:
            d = os.path.join(root, *parts[:-1])
            os.makedirs(d, exist_ok=True)
            path = os.path.join(d, parts[-1] + ".py")
        lines = []
        for dep in info["deps"]:
            # relative spelling where the dependency lives in the same package
            pkg = m if info["kind"] == "pkg" else ".".join(parts[:-1])
            if pkg and dep.startswith(pkg + ".") and dep.count(".") == pkg.count(".") + 1:
                lines.append(f"from .{dep.split('.')[-1]} import MARK as _mark_{dep.replace('.', '_')}")
            else:
                lines.append(f"import {dep}")
        with open(path, "w") as f:
            f.write(MODULE_TMPL.format(imports="\n".join(lines), name=m))
    with open(os.path.join(root, "spychk.py"), "w") as f:
        f.write(SPY)


def gen_history(rng, mods):
    names = [m for m in sorted(mods) if mods[m]["kind"] != "ns"]
    hookable = sorted(mods)
    ops = []
    handles = 0
    live = []
    n = rng.randint(3, 10)
    for step in range(n):
        r = rng.random()
        if step == 0 and r < 0.8:
            r = 0.0  # most histories start by installing a hook
        if r < 0.3 and handles < 3:
            k = rng.choice((1, 1, 2, 3))
            tops = sorted({m.split(".")[0] for m in hookable})
            hn = rng.sample(hookable + tops + tops + ["nomatch", "fo", "foo.su"], k)
            spelled = hn[0] if (k == 1 and rng.random() < 0.5) else hn
            chk = rng.choice(("spychk.A", "spychk.B", "spychk.A", None, ["spychk", "B"]))
            ops.append({"op": "install", "h": handles, "names": spelled, "checker": chk})
            live.append(handles)
            handles += 1
        elif r < 0.75:
            ops.append({"op": "import", "module": rng.choice(names)})
        elif live:
            h = rng.choice(live)
            ops.append({"op": "uninstall", "h": h})
            if rng.random() < 0.7:
                live.remove(h)
        else:
            ops.append({"op": "import", "module": rng.choice(names)})
    if not any(o["op"] == "install" for o in ops):
        ops.insert(0, {"op": "install", "h": handles, "names": [rng.choice(hookable)], "checker": "spychk.A"})
        handles += 1  # (a with-block added below must not reuse this handle id)
    if rng.random() < 0.4:
        # a with-block: install, import, leave, import again
        ops.append({"op": "with", "names": [rng.choice(hookable)], "checker": rng.choice(("spychk.A", "spychk.B")), "inside": [rng.choice(names)], "h": handles, "leave_by_exception": rng.random() < 0.5})
        ops.append({"op": "import", "module": rng.choice(names)})
    if rng.random() < 0.35:
        # the SAME hook (same names, same typechecker) installed twice - a nested with-block, or the pytest option
        # plus the package's own __init__ - the second one removed again, and only then a module beneath it imported
        first = next(o for o in ops if o["op"] == "install")
        fn = [first["names"]] if isinstance(first["names"], str) else list(first["names"])
        beneath = [m for m in names if any(m == h or m.startswith(h + ".") for h in fn)]
        if beneath:
            i = ops.index(first) + 1
            dup = {"op": "install", "h": handles + 1, "names": first["names"], "checker": first["checker"]}
            ops[i:i] = [dup, {"op": "uninstall", "h": handles + 1}, {"op": "import", "module": rng.choice(beneath)}]
    for m in rng.sample(names, min(2, len(names))):
        ops.append({"op": "import", "module": m})
    return ops


def expected(mods, ops, spy_imports=None):
    """-> dict module -> None (plain) | 'A' | 'B' | 'none-checker'; plus stats.
    spy_imports: a module that the spy typechecker module imports - it is first imported when the first
    decorator of a spy-instrumented module is evaluated (after that module's own imports)"""
    imported = {}
    spy_loaded = [False]
    hooks = []  # active hooks, most recent first: (h, names, checker)
    stats = {"after_uninstall": 0, "two_hooks": 0, "nested": 0}
    ever_uninstalled = [False]

    def verdict(name):
        for h, names, chk in hooks:
            for hn in names:
                if name == hn or name.startswith(hn + "."):
                    if chk is None:
                        return "none-checker"
                    return chk[-1] if isinstance(chk, str) else chk[-1]
        return None

    def do_import(name, depth=0):
        parts = name.split(".")
        for i in range(1, len(parts) + 1):
            cur = ".".join(parts[:i])
            if cur in imported or cur not in mods:
                continue
            if mods[cur]["kind"] == "ns":
                imported[cur] = None
                continue
            imported[cur] = verdict(cur)
            if ever_uninstalled[0]:
                stats["after_uninstall"] += 1
            if len(hooks) >= 2:
                stats["two_hooks"] += 1
            if depth:
                stats["nested"] += 1
            for dep in mods[cur]["deps"]:
                do_import(dep, depth + 1)
            if spy_imports and not spy_loaded[0] and imported[cur] in ("A", "B"):
                spy_loaded[0] = True
                do_import(spy_imports, depth + 1)

    for o in ops:
        if o["op"] == "install":
            names = [o["names"]] if isinstance(o["names"], str) else list(o["names"])
            hooks.insert(0, (o["h"], names, o["checker"]))
        elif o["op"] == "uninstall":
            hooks[:] = [h for h in hooks if h[0] != o["h"]]
            ever_uninstalled[0] = True
        elif o["op"] == "import":
            do_import(o["module"])
        elif o["op"] in ("reimport", "edit_reimport"):
            # the module object is dropped and imported again (its dependencies stay loaded)
            m = o["module"]
            if m in imported and mods[m]["kind"] != "ns":
                imported[m] = verdict(m)
                if spy_imports and not spy_loaded[0] and imported[m] in ("A", "B"):
                    spy_loaded[0] = True
                    do_import(spy_imports, 1)
        elif o["op"] == "with":
            hooks.insert(0, (o["h"], list(o["names"]), o["checker"]))
            for m in o["inside"]:
                do_import(m)
            hooks[:] = [h for h in hooks if h[0] != o["h"]]
            ever_uninstalled[0] = True
    if spy_imports and spy_imports in mods and spy_imports not in imported:
        imported[spy_imports] = None  # imported at the very end by the observer, no hook active any more
    return imported, stats


CHILD = os.path.join(os.path.dirname(os.path.abspath(__file__)), "c11_child.py")


def run_child(root, ops, mode="api", extra=None, warnings_as_errors=False):
    env = dict(os.environ)
    env["PYTHONDONTWRITEBYTECODE"] = "1"
    spec = {"root": root, "ops": ops, "mode": mode, "extra": extra, "warnings_as_errors": warnings_as_errors}
    r = subprocess.run([sys.executable, CHILD, json.dumps(spec)], capture_output=True, text=True, env=env, timeout=600, cwd=root)
    try:
        return json.loads(r.stdout.strip().splitlines()[-1])
    except Exception:
        return {"error": f"rc={r.returncode} stdout={r.stdout[-300:]} stderr={r.stderr[-600:]}"}


def judge(rec, mods, ops, out, case, label="api"):
    exp, stats = expected(mods, ops)
    if "error" in out:
        rec.inconclusive.append(f"{label} child failed: {out['error']}")
        return
    obs = out["modules"]
    for m, want in exp.items():
        if mods[m]["kind"] == "ns":
            continue
        got = obs.get(m)
        if got is None:
            rec.violation("not-imported", case, f"model expected {m} to be imported, child did not import it", mechanism="import-model-mismatch")
            return
        lookalike = any(m != hn and m.startswith(hn) and not m.startswith(hn + ".") for o in ops if o["op"] in ("install", "with") for hn in ([o["names"]] if isinstance(o["names"], str) else o["names"]))
        if want is None:
            rec.count("modules.not_instrumented")
            if lookalike:
                rec.count("lookalike_not_instrumented")
            if got["wrapped"] or got["spies"] or got["ill_typed"] != "ran":
                why = "lookalike-prefix" if lookalike else ("after-uninstall" if stats["after_uninstall"] else "outside-scope")
                rec.violation("over-instrumented", case, f"{label}: module {m} must load unmodified but: wrapped={got['wrapped']} spies={got['spies']} ill-typed call -> {got['ill_typed']}", mechanism=f"instrumented-{why}")
                return
        else:
            rec.count("modules.instrumented")
            if "." in m:
                rec.count("submodule_instrumented")
            if want == "none-checker":
                rec.count("checker.None")
                ok = got["wrapped"] and not got["spies"] and got["ill_typed"] == "ran"
            else:
                ok = got["wrapped"] and set(got["spies"]) == {want} and got["ill_typed"] == "TypeCheckError" and got["dataclass_ill_typed"] == "TypeCheckError"
            if not ok:
                rec.violation("wrong-instrumentation", case, f"{label}: module {m} must be instrumented with {want}: wrapped={got['wrapped']} spies={got['spies']} ill-typed call -> {got['ill_typed']} dataclass -> {got.get('dataclass_ill_typed')}", mechanism=f"expected-{want}-got-{'none' if not got['wrapped'] else ''.join(sorted(set(got['spies']))) or 'wrapped-unchecked'}")
                return
    extra = set(obs) - set(exp)
    if extra:
        rec.violation("import-model", case, f"child imported modules the model did not expect: {sorted(extra)}", mechanism="import-model-mismatch")
    rec.count("import_after_uninstall", stats["after_uninstall"])
    rec.count("two_hooks_active", stats["two_hooks"])
    rec.count("nested_import_inside_hooked", stats["nested"])
    if out.get("meta_path_leftover"):
        rec.violation("uninstall", case, f"{label}: finders still on sys.meta_path after every hook was uninstalled: {out['meta_path_leftover']}", mechanism="finder-left-on-meta-path")


def run_history(rec, rng, key):
    mods = gen_forest(rng)
    ops = gen_history(rng, mods)
    root = tempfile.mkdtemp(prefix="jtv_c11_")
    try:
        write_forest(root, mods)
        precompiled = rng.random() < 0.3
        if precompiled:
            # the project was run (or installed: pip byte-compiles) WITHOUT the hook before: ordinary, up-to-date
            # .pyc files sit in __pycache__ while this run (python -B / PYTHONDONTWRITEBYTECODE=1) only reads
            import compileall

            compileall.compile_dir(root, quiet=2, workers=1)
            rec.count("histories.with_plain_pyc_present")
        strict = rng.random() < 0.3
        out = run_child(root, ops, warnings_as_errors=strict)
        case = {"rngkey": key, "forest": {m: v for m, v in mods.items()}, "ops": ops, "plain_pyc_present": precompiled, "hook_api_called_with_warnings_as_errors": strict, "api_warnings": out.get("api_warnings")}
        rec.count("histories")
        inst = [(json.dumps(o["names"]), json.dumps(o["checker"])) for o in ops if o["op"] == "install"]
        if len(inst) != len(set(inst)):
            rec.count("histories.same_hook_installed_twice")
        if strict:
            rec.count("histories.hook_api_with_warnings_as_errors")
        if any(isinstance(o.get("checker"), list) for o in ops):
            rec.count("checker.tuple_spelling")
        rec.case((sorted(mods), json.dumps(ops)), nontrivial=True)
        judge(rec, mods, ops, out, case)
        return case
    finally:
        shutil.rmtree(root, ignore_errors=True)


def run_frontends(rec, seed):
    """pytest option and IPython magic, one history each"""
    rng = random.Random(f"{seed}/C11/frontends")
    mods = gen_forest(rng)
    names = [m for m in sorted(mods) if mods[m]["kind"] != "ns"]
    hooked = rng.sample(sorted(mods), 2)
    # modules under the hooked names are imported at the beginning AND at the very end of the test session (the pytest
    # child runs nested in-process sessions in between)
    hk = [m for m in names if any(m == h or m.startswith(h + ".") for h in hooked)]
    names = hk[:1] + [m for m in names if m not in hk] + hk[1:]
    root = tempfile.mkdtemp(prefix="jtv_c11_")
    try:
        write_forest(root, mods)
        ops = [{"op": "install", "h": 0, "names": hooked, "checker": "spychk.A"}] + [{"op": "import", "module": m} for m in names]
        out = run_child(root, ops, mode="pytest", extra={"packages": hooked, "checker": "spychk.A"})
        rec.count("pytest_option_runs")
        rec.case(("pytest", json.dumps(ops)), True)
        judge(rec, mods, ops, out, {"frontend": "pytest", "forest": mods, "ops": ops}, label="pytest-option")
        out = run_child(root, [], mode="ipython")
        rec.count("ipython_magic_runs")
        rec.case(("ipython",), True)
        if "error" in out:
            rec.inconclusive.append("ipython child failed: " + out["error"])
        else:
            want = [["A", "cell1_fn"], ["B", "cell2_fn"]]
            got = out["spy_log"]
            if got != want or out["plain_before_magic"] is not False or out["ill_typed"] != ["TypeCheckError", "TypeCheckError"]:
                rec.violation("ipython-magic", {"frontend": "ipython"}, f"%jaxtyping.typechecker A then B: spy log {got} (want {want}), function defined before the magic wrapped={out['plain_before_magic']}, ill-typed calls {out['ill_typed']}", mechanism="ipython-magic-wrong-checker")
    finally:
        shutil.rmtree(root, ignore_errors=True)


def run_shard(rec, seed, shard, tier):
    warnings.filterwarnings("ignore")
    for k in range(HISTORIES[tier]):
        key = f"{seed}/C11/{shard['i']}/{k}"
        case = run_history(rec, random.Random(key), key)
        if k == 0 and shard["i"] == 0:
            rec.sample(case)
    if shard["i"] == 0:
        run_frontends(rec, seed)


def replay(rec, case):
    if "rngkey" in case:
        run_history(rec, random.Random(case["rngkey"]), case["rngkey"])
    else:
        run_frontends(rec, 0)

"""C02 — a checked call is accepted iff one consistent axis assignment exists.

Oracle (a): order-free satisfiability (jtv.model.sat.satisfiable) of the whole tuple of
(annotation, shape) pairs.  Oracle (b): metamorphic agreement across parameter
permutations, positional/keyword/reversed-keyword passing, typeguard vs beartype, and the
three decorator spellings (new-style, old-style double decorator, dataclass __init__).
"""

from __future__ import annotations

import dataclasses
import random
import warnings

import numpy as np

from .. import real
from ..gen import signatures as GS
from ..model import dims as M
from ..model import sat as SAT

LEVEL = "exploration"
TECHNIQUE = "runtime monitoring: order-free satisfiability oracle + metamorphic agreement across permutations, passing styles, typecheckers and decorator spellings on generated decorated functions; decoy Unions whose first member binds then fails; re-entrant arm (checked calls made from flatten functions / shape properties while another check runs must behave as when made directly); short-lived values in one scope; two-level decorated calls made from flatten functions / shape properties"
LEVEL_TEXT = (
    "Held on every generated signature x argument tuple x configuration explored (thousands of signatures, ~20-30 "
    "configurations each). The accept/reject verdict is compared with an order-free existence-of-assignment oracle, so "
    "order- and checker-independence are decided by an oracle that has no order. Sampling, not proof."
)
LEVEL_NOTE = "Trusts jtv/model/sat.py (closed-form per-name constraints; cross-checked against the sequential model on every case) and the two third-party typecheckers calling isinstance once per annotated value."
RULE = (
    "one case = (signature of 1-5 array-annotated parameters + optional return, argument/return shapes, one "
    "configuration among permutation x passing style x typechecker x decorator spelling); shapes are consistent by "
    "construction then perturbed in one value with p=0.45; non-trivial = >=2 annotated values sharing at least one axis "
    "name; distinct by (signature, shapes, configuration)."
)
ASSUMPTIONS = [
    "typeguard 2.13 and beartype 0.22 check every annotated parameter and the return value with isinstance",
    "open corner: a symbolic axis whose names are determined only by '#'-uses of size 1 is not judged",
]
CASES = {"quick": 500, "thorough": 6000}  # signatures per shard
NSHARDS = 16


def shards(tier):
    return [{"i": i} for i in range(NSHARDS)]


def required_counters(tier):
    return {
        "oracle.sat": 200,
        "oracle.unsat": 200,
        "unsat.first_failing_not_first": 50,
        "mix.bcast_variadic_and_plain": 20,
        "config.typeguard": 500,
        "config.beartype": 500,
        "config.newstyle": 500,
        "config.oldstyle": 300,
        "config.dataclass": 200,
        "config.permuted": 300,
        "config.keyword": 300,
        "config.revkeyword": 300,
        "model_crosscheck": 500, "second_call_same_function": 300, "decoy_union_first_member_binds_then_fails": 100, "reentrant.probe_sets": 8, "temporaries.checks": 100,
    }


def checkers():
    import beartype
    import typeguard

    return {"typeguard": typeguard.typechecked, "beartype": beartype.beartype}


def make_fn(order, anns, ret_ann, ret_val, style, checker):
    """order: list of parameter names in declaration order."""
    from jaxtyping import jaxtyped

    ns = {f"T_{n}": anns[n] for n in order}
    ns["RET"] = ret_val
    if style == "dataclass":
        src = "@dataclasses.dataclass\nclass D:\n" + "".join(f"    {n}: T_{n}\n" for n in order)
        ns["dataclasses"] = dataclasses
        real.exec_src(src, ns)
        return jaxtyped(typechecker=checker)(ns["D"])
    retstr = ""
    if ret_ann is not None:
        ns["T_ret"] = ret_ann
        retstr = " -> T_ret"
    src = f"def f({', '.join(f'{n}: T_{n}' for n in order)}){retstr}:\n    return RET\n"
    ns["__name__"] = "jtv_generated"
    real.exec_src(src, ns)
    f = ns["f"]
    if style == "new":
        return jaxtyped(typechecker=checker)(f)
    with warnings.catch_warnings():
        warnings.simplefilter("ignore")
        return jaxtyped(checker(f))


def classify_exc(e):
    from jaxtyping import AnnotationError, TypeCheckError

    if isinstance(e, AnnotationError):
        return "annot"
    if isinstance(e, TypeCheckError):
        return "reject"
    name = type(e).__name__
    if isinstance(e, TypeError) or "Beartype" in name and "Violation" in name:
        return "reject"
    return "exc:" + name


def call(fn, order, vals, passing):
    try:
        if passing == "pos":
            fn(*[vals[n] for n in order])
        elif passing == "kw":
            fn(**{n: vals[n] for n in order})
        else:
            fn(**{n: vals[n] for n in reversed(order)})
        return "ok"
    except Exception as e:  # noqa
        return classify_exc(e)


def admissible(order, specs):
    """symbolic axes stay after a parameter that binds their names with a plain axis"""
    bound = set()
    for n in order:
        toks = M.parse(specs[n])
        for t in toks:
            if t.kind == "symbolic" and not GS._names_of(t.name) <= bound:
                return False
        bound |= {t.name for t in toks if t.kind == "named" and not t.bcast}
    return True


def run_signature(rec, rng, sig=None, shapes=None, retshape=None, rngkey=None, second=None):
    import jaxtyping

    if sig is None:
        sig = GS.gen_signature(rng)
        shapes, retshape = GS.gen_values(rng, sig)
        # a second argument tuple for the SAME functions and annotation objects (other sizes, own verdict)
        second = GS.gen_values(rng, sig, p_perturb=0.3)
    names = [p[0] for p in sig["params"]]
    specs = {p[0]: p[1] for p in sig["params"]}
    anns = {n: jaxtyping.Float[np.ndarray, specs[n]] for n in names}
    if sig.get("decoy") is None and "decoy" not in sig:
        # one parameter may be a Union whose FIRST member can never match (its last axis is 77) but binds an axis
        # name that the other annotations use before it fails: the Union then means exactly its second member
        sig["decoy"] = None
        if rng.random() < 0.3:
            used = sorted({t.name for sp in specs.values() for t in M.parse(sp) if t.kind == "named" and not t.tree and t.name})
            if used:
                sig["decoy"] = [rng.choice(names), rng.choice(used), rng.choice(("{} *jtvdecoy 77", "{} ... 77", "{} 77", "{} _ 77", "#{} *jtvdecoy 77"))]
    if sig.get("decoy"):
        import typing

        dn, dname, dform = sig["decoy"]
        anns[dn] = typing.Union[jaxtyping.Float[np.ndarray, dform.format(dname)], anns[dn]]
        rec.count("decoy_union_first_member_binds_then_fails")
    vals = {n: real.np_array(sh) for n, sh in zip(names, shapes)}
    ret_ann = jaxtyping.Float[np.ndarray, sig["ret"]] if sig["ret"] is not None else None
    ret_val = real.np_array(retshape) if retshape is not None else None
    ppairs = [(M.parse(specs[n]), tuple(sh)) for n, sh in zip(names, shapes)]
    fpairs = ppairs + ([(M.parse(sig["ret"]), tuple(retshape))] if sig["ret"] is not None else [])
    exp_fn = SAT.satisfiable(fpairs)
    exp_dc = SAT.satisfiable(ppairs)
    # harness self-check: sequential model vs declarative oracle
    seq = SAT.sequential(fpairs)[0]
    rec.count("model_crosscheck")
    if exp_fn != "open" and seq != "open" and seq != "annot" and seq != exp_fn:
        rec.inconclusive.append(f"MODEL DISAGREEMENT seq={seq} decl={exp_fn} sig={sig} shapes={shapes} ret={retshape}")
        return
    case = {"sig": sig, "shapes": shapes, "ret": retshape, "rngkey": rngkey}
    if exp_fn == "open":
        rec.open_corner("symbolic-over-undetermined-name")
        return
    rec.count("oracle." + exp_fn)
    allnames = [set(t.name for t in toks if t.kind in ("named", "namedvar")) for toks, _ in fpairs]
    shared = any(allnames[i] & allnames[j] for i in range(len(allnames)) for j in range(i))
    if exp_fn == "unsat":
        # which prefix of the greedy walk first fails?
        s, v = {}, {}
        for idx, (toks, sh) in enumerate(fpairs):
            vd, why, s, v = M.match(toks, sh, s, v, {})
            if vd != "ok":
                if idx > 0:
                    rec.count("unsat.first_failing_not_first")
                break
    vt = [next((t for t in toks if t.kind == "namedvar"), None) for toks, _ in fpairs]
    for nm in ("v", "w"):
        flags = {t.bcast for t in vt if t is not None and t.name == nm}
        if flags == {True, False}:
            rec.count("mix.bcast_variadic_and_plain")
    orders = [names]
    tries = 0
    while len(orders) < 3 and tries < 8 and len(names) > 1:
        tries += 1
        o = names[:]
        rng.shuffle(o)
        if o not in orders and admissible(o, specs):
            orders.append(o)
    chk = checkers()
    seen = {}
    second_exp = None
    if second is not None:
        sh2, ret2 = second
        p2 = [(M.parse(specs[n]), tuple(sh)) for n, sh in zip(names, sh2)]
        f2 = p2 + ([(M.parse(sig["ret"]), tuple(ret2))] if sig["ret"] is not None else [])
        second_exp = (SAT.satisfiable(f2), SAT.satisfiable(p2))
        vals2 = {n: real.np_array(sh) for n, sh in zip(names, sh2)}
    for oi, order in enumerate(orders):
        for cname, c in chk.items():
            for style in ("new", "old", "dataclass"):
                # sample passing styles to bound cost: all three for the base order, one for permutations
                passings = ("pos", "kw", "rkw") if oi == 0 else (rng.choice(("pos", "kw", "rkw")),)
                try:
                    fn = make_fn(order, anns, ret_ann, ret_val, style, c)
                    fn2 = None
                    if second is not None and style != "dataclass" and ret_ann is not None:
                        pass
                except Exception as e:  # noqa
                    rec.violation("decorate", case, f"decorating failed: {type(e).__name__}: {e}", mechanism="decorate-raises")
                    continue
                for passing in passings:
                    got = call(fn, order, vals, passing)
                    expect = exp_dc if style == "dataclass" else exp_fn
                    expect_v = {"sat": "ok", "unsat": "reject"}[expect] if expect != "open" else None
                    cfg = f"{cname}/{style}/{passing}/perm{oi}"
                    rec.case((sig, shapes, retshape, cfg), nontrivial=shared)
                    rec.count("config." + cname)
                    rec.count("config." + {"new": "newstyle", "old": "oldstyle", "dataclass": "dataclass"}[style])
                    if oi:
                        rec.count("config.permuted")
                    if passing == "kw":
                        rec.count("config.keyword")
                    if passing == "rkw":
                        rec.count("config.revkeyword")
                    if expect_v is None:
                        continue
                    if got != expect_v:
                        rec.violation(
                            "sat-oracle",
                            dict(case, cfg=cfg, order=order),
                            f"config {cfg} order={order}: oracle says {expect} -> {expect_v}, real {got}; sig={sig} shapes={shapes} ret={retshape}",
                            mechanism=f"{style}-{'accepts-unsat' if got == 'ok' else 'rejects-sat' if got == 'reject' else got}",
                        )
                    seen.setdefault(style == "dataclass", set()).add(got)
                # same function object, second argument tuple (only where the returned value can be kept
                # consistent: the generated function returns a fixed array, so functions with a return
                # annotation are re-called only when the second return shape equals the first)
                if second is not None and second_exp is not None and (style == "dataclass" or ret_ann is None or list(second[1] or []) == list(retshape or [])):
                    exp2 = second_exp[1] if style == "dataclass" else second_exp[0]
                    if exp2 in ("sat", "unsat"):
                        got2 = call(fn, order, vals2, passings[0])
                        rec.count("second_call_same_function")
                        rec.case((sig, second[0], second[1], f"{cname}/{style}/second"), nontrivial=shared)
                        if got2 != {"sat": "ok", "unsat": "reject"}[exp2]:
                            rec.violation("sat-oracle", dict(case, cfg=f"{cname}/{style}/second-call", order=order, second=[second[0], second[1]]), f"second call of the same decorated function with shapes {second[0]} ret {second[1]}: oracle {exp2}, real {got2} (first call: shapes {shapes})", mechanism=f"{style}-second-call-{'accepts-unsat' if got2 == 'ok' else 'rejects-sat' if got2 == 'reject' else got2}")
    for k, s in seen.items():
        if len(s) > 1:
            rec.violation("metamorphic", case, f"configurations disagree among themselves: {sorted(s)}", mechanism="configs-disagree")


_REENTRANT = {}


def arm_reentrant(rec):
    """a checked call is a checked call wherever it is made from: directly, from the flatten function of a custom
    PyTree node while a PyTree check is flattening it, from the `shape` property of an array-like while an array
    check reads it, from inside the leaf check of a structured PyTree - same verdicts, own bindings"""
    import beartype
    import jax
    import typeguard

    import jaxtyping
    from jaxtyping import Float, PyTree, Shaped, jaxtyped

    N = np.ndarray
    if not _REENTRANT:
        class ReNode:
            def __init__(self, a, probe):
                self.a, self.probe = a, probe

        def fl(n):
            n.probe()
            return (n.a,), n.probe

        jax.tree_util.register_pytree_node(ReNode, fl, lambda aux, ch: ReNode(ch[0], aux))

        class ReShape:
            dtype = "float32"

            def __init__(self, shape, probe):
                self._shape, self.probe = shape, probe

            @property
            def shape(self):
                self.probe()
                return self._shape

        _REENTRANT.update(ReNode=ReNode, ReShape=ReShape)
    ReNode, ReShape = _REENTRANT["ReNode"], _REENTRANT["ReShape"]
    for cname, tc in (("typeguard", typeguard.typechecked), ("beartype", beartype.beartype)):
        ns = {"Float": Float, "N": N, "jaxtyped": jaxtyped, "tc": tc}
        real.exec_src('@jaxtyped(typechecker=tc)\ndef helper(x: Float[N, "n"], y: Float[N, "n"]) -> Float[N, "n"]:\n    return x\n', ns)
        helper = ns["helper"]
        ns["np"] = np
        # two levels: a decorated function that makes a (well-typed) decorated call itself and THEN violates its own
        # return annotation / checks a wrong-sized array by hand - the inner call's exit must not disturb the outer call
        real.exec_src(
            '@jaxtyped(typechecker=tc)\ndef outer_bad(x: Float[N, "n"]) -> Float[N, "n"]:\n    helper(x, x)\n    return np.zeros((x.shape[0] + 1,), dtype="float32")\n'
            '@jaxtyped(typechecker=tc)\ndef outer_manual(x: Float[N, "n"]):\n    helper(x, x)\n    return (isinstance(np.zeros((x.shape[0] + 1,), dtype="float32"), Float[N, "n"]), isinstance(np.zeros(x.shape, dtype="int32"), Float[N, "n"]), isinstance(x, Float[N, "n"]))\n',
            ns,
        )
        outer_bad, outer_manual = ns["outer_bad"], ns["outer_manual"]

        def probe_calls():
            out = []
            try:
                outer_bad(real.np_array((2,)))
                out.append(("outer-bad-return", "accepted"))
            except Exception as e:  # noqa
                out.append(("outer-bad-return", call_name(e)))
            try:
                out.append(("outer-manual", outer_manual(real.np_array((2,)))))
            except Exception as e:  # noqa
                out.append(("outer-manual", call_name(e)))
            for x, y in ((real.np_array((2,)), real.np_array((2,))), (real.np_array((2,)), real.np_array((3,))), (real.np_array((2,)), real.np_array((2,), "int32")), (real.np_array((2, 2)), real.np_array((2,)))):
                try:
                    helper(x, y)
                    out.append("ok")
                except Exception as e:  # noqa
                    out.append(call_name(e))
            with jaxtyped("context"):
                out.append(("block", isinstance(real.np_array((4,)), Float[N, "n"]), isinstance(real.np_array((5,)), Float[N, "n"]), isinstance(real.np_array((4,), "int32"), Float[N, "..."])))
                try:
                    out.append(("?-outside", isinstance(real.np_array((4,)), Shaped[N, "?q"])))
                except Exception as e:  # noqa
                    out.append(("?-outside", type(e).__name__))
            return out

        def call_name(e):
            return "TypeCheckError" if isinstance(e, jaxtyping.TypeCheckError) else type(e).__name__

        direct = probe_calls()
        seen = {}
        if direct[:2] != [("outer-bad-return", "TypeCheckError"), ("outer-manual", (False, False, True))]:
            rec.violation("reentrant", {"checker": cname, "where": "direct"}, f"two-level decorated calls made directly: {direct[:2]}", mechanism="two-level-call-direct-wrong")

        def recorder(where):
            def p():
                seen.setdefault(where, probe_calls())

            return p

        def outer(value, ann):
            try:
                return isinstance(value, ann)
            except Exception as e:  # noqa
                return type(e).__name__

        with jaxtyped("context"):
            r1 = outer([ReNode(real.np_array((3,)), recorder("custom-flatten-function"))], PyTree[Float[N, "k"]])
            r2 = outer(ReShape((3,), recorder("shape-property-during-array-check")), Float[typing_Any(), "k"])
            r3 = outer({"a": ReShape((3,), recorder("shape-property-during-structured-leaf-check"))}, PyTree[Float[typing_Any(), "?k"], "T"])
            r4 = outer([ReNode(real.np_array((3,)), recorder("custom-flatten-inside-structured"))], PyTree[Float[N, "?k"], "T2"])
        rec.count("reentrant.outer_checks", 4)
        if (r1, r2, r3, r4) != (True, True, True, True):
            rec.violation("reentrant", {"checker": cname}, f"the enclosing checks themselves answered {(r1, r2, r3, r4)}", mechanism="reentrant-outer-check-disturbed")
        for where in ("custom-flatten-function", "shape-property-during-array-check", "shape-property-during-structured-leaf-check", "custom-flatten-inside-structured"):
            rec.count("reentrant.probe_sets")
            rec.case(("reentrant", cname, where), True)
            if where not in seen:
                rec.inconclusive.append(f"re-entrant probe point {where} was never reached")
                continue
            if seen[where] != direct:
                rec.violation("reentrant", {"checker": cname, "where": where}, f"checked calls made from a {where}: {seen[where]}, the same calls made directly: {direct}", mechanism="reentrant-" + where + "-differs")


def typing_Any():
    import typing

    return typing.Any


def run_shard(rec, seed, shard, tier):
    warnings.filterwarnings("ignore")
    if shard.get("i", 1) % 2 == 1:
        real.hostile_prelude(rec)  # a past: nothing the check decides may depend on it
        real.toplevel_probes(rec, None, "after the hostile prelude")
    if shard["i"] % 4 == 1:
        real.temporaries_probe(rec, "C02")  # short-lived values whose id() is handed on
    if shard["i"] % 8 == 0:
        arm_reentrant(rec)
    for k in range(CASES[tier]):
        key = f"{seed}/C02/{shard['i']}/{k}"
        rng = random.Random(key)
        run_signature(rec, rng, rngkey=key)
        if k == 0 and shard["i"] == 0:
            r2 = random.Random(key)
            sig = GS.gen_signature(r2)
            rec.sample({"sig": sig, "values": GS.gen_values(r2, sig)})


def replay(rec, case):
    warnings.filterwarnings("ignore")
    sec = case.get("second")
    run_signature(rec, random.Random(case.get("rngkey") or "r"), sig=case["sig"], shapes=case["shapes"], retshape=case["ret"], rngkey=case.get("rngkey"), second=tuple(sec) if sec else None)

"""C03 — dtype categories accept exactly the documented dtypes, on every backend.

Finite space, enumerated completely: every distinct dtype each reachable backend can
produce x the 34 exported categories (+ generated user categories) x carriers.
"""

from __future__ import annotations

import random
import re
import enum
import typing
import warnings

import numpy as np

from .. import real
from ..model import dtypes as DT

LEVEL = "exploration"
EXHAUSTIVE = True
TECHNIQUE = "runtime monitoring: complete enumeration of (dtype, category, carrier) triples against an independent dtype oracle (NumPy scalar hierarchy, ml_dtypes finfo/iinfo, jax.dtypes), carriers NumPy / JAX concrete+jit+vmap+eval_shape tracers+keys / TensorFlow / duck objects with str and torch/mlx-style dtypes; the same table asked inside contexts / decorated bodies against shared annotation objects with temporaries, after hostile PyTree activity, and for annotations built while checking was switched off; duck arrays whose dtype is a str subclass, a str-valued Enum member or numpy.str_"
LEVEL_TEXT = (
    "The space is finite and is enumerated completely on this platform: all NumPy scalar types incl. platform aliases, all "
    "ml_dtypes types, all JAX dtypes with x64 on, PRNG keys of every registered implementation, structured dtypes, every "
    "instantiable TensorFlow dtype, duck carriers; all 34 exported categories. User categories are sampled."
)
LEVEL_NOTE = "Trusts the dtype oracle (jtv/model/dtypes.py). PyTorch and MLX cannot be imported here: their dtype objects are simulated by objects whose repr is 'torch.<name>' / 'mlx.core.<name>'."
RULE = (
    "one case = (carrier, dtype, category); expected from the dtype oracle; non-trivial = every triple (each is a distinct "
    "cell of the finite table); distinct by the triple. User categories: random lists of names / regexes vs name equality / Pattern.match."
)
ASSUMPTIONS = [
    "documented hierarchy of docs/api/array.md: Float = any floating point, Int = any signed integer, ...",
    "torch/mlx carriers simulated (cannot be imported offline)",
]
SHARD_TIMEOUT = {"quick": 900, "thorough": 1800}


def shards(tier):
    # the numpy / jax / duck tables are also walked in reverse order in separate processes:
    # the verdict for a dtype must not depend on which dtypes were checked before it
    return [{"carrier": c} for c in ("numpy", "jax", "jaxtrace", "tf", "duck", "user", "context")] + [{"carrier": c, "reverse": True} for c in ("numpy", "jax", "duck")]


def required_counters(tier):
    return {"triples.numpy": 1000, "triples.jax": 800, "triples.jaxtrace": 800, "triples.tf": 300, "triples.duck": 500, "user.categories": 200, "kinds.key": 30, "kinds.other": 100, "reverse_order_shards": 3, "context_triples.block": 200, "tf.reference_dtypes": 5, "context_triples.built-while-disabled": 300, "context_triples.call": 400, "context_triples.after-hostile": 500, "hostile_events": 5}


def cat(name):
    import jaxtyping

    return getattr(jaxtyping, name)


def judge(rec, carrier, dname, kind, cname, x, arrtype, tname=None, ann=None, where=None):
    """compare one triple with the oracle"""
    C = cat(cname)
    try:
        if ann is None:
            ann = C[arrtype, "..."]
        got = real.check(x, ann)
    except Exception as e:  # noqa
        got = "exc:" + type(e).__name__
    exp = DT.expected(cname, kind, dname)
    rec.count("triples." + carrier)
    rec.count("kinds." + kind)
    rec.case((carrier, dname, tname, cname, where), nontrivial=True)
    want = "ok" if exp else "no"
    if got != want:
        rec.violation(
            "dtype-category",
            {"carrier": carrier, "dtype": dname, "type_name": tname, "kind": kind, "category": cname, "where": where},
            f"{carrier}: array of dtype {dname} (scalar type {tname}, kind {kind}) vs {cname}{' [' + where + ']' if where else ''}: oracle {want}, real {got}",
            mechanism=_mech(classify(carrier, dname, tname, kind, cname, want, got), where),
        )


def _mech(m, where):
    # the three mechanism names of recorded findings stay as they are wherever the question is asked
    if not where or m in ("numpy-platform-alias-scalar-name", "tf-quantized-dtype-raises", "tf-opaque-dtype-raises"):
        return m
    return m + "-" + where.split(":")[0]


SIZED = re.compile(r"^(bool_?|u?int\d+|float\d+(_\w+)?|bfloat16|complex\d+)$")


def classify(carrier, dname, tname, kind, cname, want, got):
    if carrier in ("numpy",) and tname and not SIZED.match(tname) and kind in ("int", "uint", "float", "complex") and want == "ok" and got == "no":
        return "numpy-platform-alias-scalar-name"
    if carrier == "tf" and dname.startswith(("qint", "quint")) and got.startswith("exc:"):
        return "tf-quantized-dtype-raises"
    if carrier == "tf" and dname in ("variant", "resource") and got.startswith("exc:"):
        return "tf-opaque-dtype-raises"
    return f"{carrier}-{kind}-{cname}-want-{want}-got-{got}"


# ------------------------------------------------------------------------------------- numpy


def numpy_dtypes():
    import ml_dtypes

    out = {}
    for t in set(np.sctypeDict.values()):
        try:
            d = np.dtype(t)
        except Exception:
            continue
        out[(t.__name__, d.str)] = d
    for n in dir(ml_dtypes):
        t = getattr(ml_dtypes, n)
        if isinstance(t, type) and issubclass(t, np.generic):
            out[(t.__name__, np.dtype(t).str)] = np.dtype(t)
    for extra in ("V4", "U3", "S3", "M8[ns]", "m8[s]", ">i4", ">f8", "<u2"):
        d = np.dtype(extra)
        out[(d.type.__name__, d.str)] = d
    return sorted(out.items(), key=lambda kv: kv[0])


def shard_numpy(rec, reverse=False):
    import jaxtyping

    dts = numpy_dtypes()
    if reverse:
        dts = dts[::-1]
    rec.info["numpy_dtypes"] = len(dts)
    for (tname, dstr), d in dts:
        try:
            x = np.zeros((2,), dtype=d)
        except Exception:
            continue
        kind = DT.kind_of(d)
        dname = DT.canonical_name(d)
        for cname in DT.ALL_CATEGORIES:
            judge(rec, "numpy", dname, kind, cname, x, np.ndarray, tname)
    # structured dtypes: only Shaped and the matching make_numpy_struct_dtype category
    s1 = np.dtype([("first", np.uint8), ("second", np.int8)])
    s2 = np.dtype([("first", np.uint8), ("second", np.int16)])
    s3 = np.dtype([("second", np.int8), ("first", np.uint8)])
    L1 = jaxtyping.make_numpy_struct_dtype(s1, "L1")
    s4 = np.dtype([("first", np.uint8), ("second", np.int8)], align=True)
    s5 = np.dtype({"names": ["first", "second"], "formats": [np.uint8, np.int8], "offsets": [0, 4], "itemsize": 8})
    order = (s1, s2, s3, s4, s5) if not reverse else (s5, s4, s3, s2, s1)
    for d in order:
        x = np.zeros((2,), dtype=d)
        for cname in DT.ALL_CATEGORIES:
            judge(rec, "numpy", "struct:" + str(d), "other", cname, x, np.ndarray, "void")
        got = real.check(x, L1[np.ndarray, "..."])
        rec.case(("numpy", "struct", str(d), "L1"), True)
        rec.count("triples.numpy")
        want = "ok" if str(d) == str(s1) else "no"  # "exact match on the name, order, and dtype of all its fields"
        if got != want:
            rec.violation("struct-dtype", {"dtype": str(d)}, f"make_numpy_struct_dtype(s1) vs {d}: want {want} got {got}", mechanism="struct-dtype-" + got)
    # the class NAME is only a label: two categories made with the same name keep their own dtype
    La = jaxtyping.make_numpy_struct_dtype(s1, "Label")
    Lb = jaxtyping.make_numpy_struct_dtype(s2, "Label")
    for C, own, other in ((La, s1, s2), (Lb, s2, s1), (jaxtyping.make_numpy_struct_dtype(s1, "Label"), s1, s2)):
        for d, want in ((own, "ok"), (other, "no")):
            got = real.check(np.zeros((2,), dtype=d), C[np.ndarray, "..."])
            rec.case(("numpy", "struct-same-name", str(d), want), True)
            rec.count("triples.numpy")
            if got != want:
                rec.violation("struct-dtype", {"dtype": str(d), "same_name": "Label"}, f"two make_numpy_struct_dtype categories named 'Label': array of {d} -> {got}, expected {want}", mechanism="struct-category-looked-up-by-name")
    for bad in (np.dtype("float32"), np.dtype("U3"), "nope"):
        try:
            jaxtyping.make_numpy_struct_dtype(bad, "X")
            got = "accepted"
        except ValueError:
            got = "valueerror"
        except Exception as e:  # noqa
            got = "exc:" + type(e).__name__
        if got != "valueerror":
            rec.violation("struct-dtype", {"arg": str(bad)}, f"make_numpy_struct_dtype({bad!r}) -> {got}, expected ValueError", mechanism="struct-ctor-" + got)
    rec.sample({"carrier": "numpy", "dtype": "longlong", "category": "Int"})


# --------------------------------------------------------------------------------------- jax


def jax_dtypes():
    import jax._src.dtypes as jd

    return [np.dtype(d) for d in jd._jax_types]


def jax_keys():
    import jax
    import jax._src.prng as prng

    out = []
    for impl in prng.prngs:
        try:
            out.append((f"key<{impl}>", jax.random.key(0, impl=impl)))
        except Exception:
            pass
    return out


def shard_jax(rec, reverse=False):
    import jax
    import jax.numpy as jnp

    jax.config.update("jax_enable_x64", True)
    for d in (jax_dtypes()[::-1] if reverse else jax_dtypes()):
        try:
            x = jnp.zeros((2,), dtype=d)
        except Exception as e:  # noqa
            rec.count("jax.uncreatable")
            continue
        kind, dname = DT.kind_of(d), DT.canonical_name(d)
        for cname in DT.ALL_CATEGORIES:
            judge(rec, "jax", dname, kind, cname, x, jax.Array, d.type.__name__)
    for dname, k in jax_keys():
        for cname in DT.ALL_CATEGORIES:
            judge(rec, "jax", dname, "key", cname, k, jax.Array, "prng_key")
        ks = jax.random.split(k, 3)
        for cname in DT.ALL_CATEGORIES:
            judge(rec, "jax", dname, "key", cname, ks, jax.Array, "prng_key")
    old = jax.random.PRNGKey(0)
    for cname in DT.ALL_CATEGORIES:
        judge(rec, "jax", "uint32", "uint", cname, old, jax.Array, "uint32")
    rec.sample({"carrier": "jax", "dtype": "key<threefry2x32>", "category": "Key"})


def shard_jaxtrace(rec):
    import jax
    import jax.numpy as jnp

    jax.config.update("jax_enable_x64", True)
    items = []
    for d in jax_dtypes():
        try:
            items.append((DT.canonical_name(d), DT.kind_of(d), d.type.__name__, jnp.zeros((2, 3), dtype=d)))
        except Exception:
            pass
    for dname, k in jax_keys():
        items.append((dname, "key", "prng_key", jax.random.split(k, 2)))

    for dname, kind, tname, x in items:
        for how in ("jit", "vmap", "eval_shape", "sds"):
            seen = []

            def f(t):
                seen.append(t)
                for cname in DT.ALL_CATEGORIES:
                    judge(rec, "jaxtrace", dname, kind, cname, t, jax.Array if how != "sds" else typing.Any, f"{tname}/{how}")
                return 0

            try:
                if how == "jit":
                    jax.jit(f)(x)
                elif how == "vmap":
                    jax.vmap(f)(x)
                elif how == "eval_shape":
                    jax.eval_shape(f, x)
                else:
                    f(jax.ShapeDtypeStruct(x.shape, x.dtype))
            except Exception as e:  # noqa
                rec.violation("trace-carrier", {"dtype": dname, "how": how}, f"checking under {how} raised {type(e).__name__}: {str(e)[:200]}", mechanism=f"jaxtrace-{how}-{type(e).__name__}")
            if how in ("jit", "vmap", "eval_shape") and seen and not isinstance(seen[0], jax.core.Tracer):
                rec.inconclusive.append(f"{how} did not hand a tracer to the function")
    rec.sample({"carrier": "jaxtrace", "dtype": "bfloat16", "how": "vmap", "category": "Float"})


# ---------------------------------------------------------------------------------------- tf


def shard_tf(rec):
    try:
        import tensorflow as tf
    except Exception as e:  # noqa
        rec.inconclusive.append(f"tensorflow not importable: {e}")
        return
    names = sorted(n for n in dir(tf.dtypes) if isinstance(getattr(tf.dtypes, n), tf.dtypes.DType))
    made = 0
    for n in names:
        t = getattr(tf.dtypes, n)
        try:
            if n == "string":
                x = tf.constant(["a", "b"])
            elif n.startswith(("qint", "quint")):
                x = tf.cast(tf.zeros((2,), dtype=tf.float32), t) if False else tf.zeros((2,), dtype=t)
            else:
                x = tf.zeros((2,), dtype=t)
        except Exception:
            rec.count("tf.uninstantiable")
            continue
        made += 1
        try:
            npd = np.dtype(t.as_numpy_dtype)
            kind, dname = DT.kind_of(npd), DT.canonical_name(npd)
        except Exception:
            kind, dname = "other", n
        if n.startswith(("qint", "quint")):
            kind, dname = "other", n  # quantized types: only Shaped
        if n == "string":
            kind, dname = "other", "string"
        for cname in DT.ALL_CATEGORIES:
            judge(rec, "tf", dname, kind, cname, x, tf.Tensor, n)
    rec.info["tf_dtypes_instantiated"] = made
    # TF1-style reference variables in graph mode: their dtype is e.g. float32_ref (a float32 as far as any
    # category is concerned; `dtype.name` says 'float32_ref', `as_numpy_dtype` says float32)
    try:
        with tf.Graph().as_default():
            for n in ("float32", "float16", "bfloat16", "int32", "int8", "uint8", "bool", "complex64", "float64", "int64"):
                t = getattr(tf.dtypes, n)
                v = tf.compat.v1.Variable(tf.zeros((2,), dtype=t), use_resource=False)
                if not v.dtype.name.endswith("_ref"):
                    continue
                npd = np.dtype(t.as_numpy_dtype)
                for x, how in ((v, "ref-variable"), (tf.identity(v) if False else v._ref() if hasattr(v, "_ref") else v, "ref-tensor")):
                    for cname in DT.ALL_CATEGORIES:
                        judge(rec, "tf", DT.canonical_name(npd), DT.kind_of(npd), cname, x, typing.Any, n + "_ref:" + how)
                rec.count("tf.reference_dtypes")
    except Exception as e:  # noqa
        rec.info["tf_reference_variables_unavailable"] = f"{type(e).__name__}: {e}"[:200]
    rec.sample({"carrier": "tf", "dtype": "bfloat16", "category": "Float"})


# -------------------------------------------------------------------------------------- duck


class TorchLikeDtype:
    def __init__(self, lib, name):
        self.lib, self.name = lib, name

    def __repr__(self):
        return f"{self.lib}.{self.name}"

    __str__ = __repr__


class _NameStr(str):
    pass


DUCK_NAMES = [
    ("bool", "bool"), ("uint8", "uint"), ("uint16", "uint"), ("uint32", "uint"), ("uint64", "uint"), ("int8", "int"), ("int16", "int"),
    ("int32", "int"), ("int64", "int"), ("float16", "float"), ("bfloat16", "float"), ("float32", "float"), ("float64", "float"),
    ("complex64", "complex"), ("complex128", "complex"), ("float8_e4m3fn", "float"), ("float8_e5m2", "float"), ("float8_e4m3fnuz", "float"),
    ("float8_e5m2fnuz", "float"), ("int4", "int"), ("uint4", "uint"), ("my_dtype", "other"), ("float", "other"), ("int", "other"),
    ("float320", "other"), ("xfloat32", "other"), ("", "other"), ("Float32", "other"), ("quint8", "other"), ("complex32", "other"),
]


def shard_duck(rec, reverse=False):
    for dname, kind in (DUCK_NAMES[::-1] if reverse else DUCK_NAMES):
        carriers = [("str", real.Duck((2,), dname), real.Duck)]
        carriers.append(("torch", real.Duck((2,), TorchLikeDtype("torch", dname)), typing.Any))
        carriers.append(("mlx", real.Duck((2,), TorchLikeDtype("mlx.core", dname)), real.Duck))
        # dtypes that ARE strings without being exactly `str` (a str subclass, a str-valued Enum member, numpy.str_)
        carriers.append(("str-subclass", real.Duck((2,), _NameStr(dname)), real.Duck))
        carriers.append(("str-enum", real.Duck((2,), enum.Enum("DType", {"member": dname}, type=str).member), real.Duck))
        carriers.append(("numpy-str_", real.Duck((2,), np.str_(dname)), typing.Any))
        for cn, x, at in carriers:
            for cname in DT.ALL_CATEGORIES:
                judge(rec, "duck", dname, kind, cname, x, at, cn)
    rec.sample({"carrier": "duck/torch-style", "dtype": "torch.bfloat16", "category": "Float"})


# ----------------------------------------------------------------------------------- context


def shard_context(rec, seed):
    """The same table, asked where real programs ask it: inside a `jaxtyped("context")` block and inside the body
    of a decorated function, against ONE annotation object per category, with short-lived temporaries (a freed
    array's address is reused by the next one), and again after hostile PyTree activity in the same thread."""
    import jax
    import jax.numpy as jnp
    import typeguard

    import jaxtyping
    from jaxtyping import jaxtyped

    rng = random.Random(f"{seed}/C03/context")
    anns = {c: cat(c)[np.ndarray, "..."] for c in DT.ALL_CATEGORIES}
    anns_any = {c: cat(c)[typing.Any, "..."] for c in DT.ALL_CATEGORIES}
    names = ["bool", "uint8", "uint16", "uint32", "uint64", "int8", "int16", "int32", "int64", "float16", "float32", "float64", "complex64", "complex128", "bfloat16", "float8_e4m3fn", "int4", "U3", "M8[ns]"]

    def table(where, order):
        for dn in order:
            for cname in DT.ALL_CATEGORIES:
                try:
                    import ml_dtypes  # noqa

                    d = np.dtype(getattr(ml_dtypes, dn)) if hasattr(ml_dtypes, dn) and dn not in ("float16", "float32", "float64") and not hasattr(np, dn) else np.dtype(dn)
                except Exception:
                    d = np.dtype(dn)
                x = np.zeros((2,), dtype=d)  # a temporary: dropped before the next one is made
                judge(rec, "numpy", DT.canonical_name(d), DT.kind_of(d), cname, x, np.ndarray, d.type.__name__, ann=anns[cname], where=where)
                del x
                y = real.Duck((2,), DT.canonical_name(d)) if d.kind not in "UMm" else None
                if y is not None:
                    judge(rec, "duck", DT.canonical_name(d), DT.kind_of(d), cname, y, typing.Any, "str", ann=anns_any[cname], where=where)
                del y
                rec.count("context_triples." + where.split(":")[0])

    def shuffled():
        o = list(names)
        rng.shuffle(o)
        return o

    # 1. one block for the whole table
    with jaxtyped("context"):
        table("block", shuffled())
    # 1b. annotations BUILT while checking was switched off, used after it is on again
    jaxtyping.config.update("jaxtyping_disable", True)
    try:
        w_np = {c: cat(c)[np.ndarray, "..."] for c in DT.ALL_CATEGORIES}
        w_any = {c: cat(c)[typing.Any, "..."] for c in DT.ALL_CATEGORIES}
    finally:
        jaxtyping.config.update("jaxtyping_disable", False)
    keep = (anns, anns_any)
    anns, anns_any = w_np, w_any
    table("built-while-disabled", shuffled()[:10])
    with jaxtyped("context"):
        table("built-while-disabled:block", shuffled()[:10])
    anns, anns_any = keep
    # 2. body of a decorated function (typeguard and no typechecker)
    for tc, lab in ((typeguard.typechecked, "call:typeguard"), (None, "call:none")):

        @jaxtyped(typechecker=tc)
        def body(order, lab=lab):
            table(lab, order)
            return 0

        body(shuffled())
    # 3. after hostile activity in this thread, at top level and in a block
    class Unflattenable:
        pass

    def _boom(_):
        raise RuntimeError("cannot flatten")

    jax.tree_util.register_pytree_node(Unflattenable, _boom, lambda a, c: Unflattenable())
    hostile = [
        lambda: isinstance([np.zeros(2), Unflattenable()], jaxtyping.PyTree[jaxtyping.Float[np.ndarray, "a"]]),
        lambda: isinstance([np.zeros(2, dtype="float32"), np.zeros(3, dtype="float32")], jaxtyping.PyTree[jaxtyping.Float[np.ndarray, "a"]]),
        lambda: isinstance({"k": np.zeros(2, dtype="int8")}, jaxtyping.PyTree[jaxtyping.Float[np.ndarray, "?a"], "T"]),
        lambda: isinstance([], jaxtyping.PyTree[jaxtyping.Float]),
        lambda: isinstance(real.RaisingShape(), jaxtyping.Float[typing.Any, "a"]) if hasattr(real, "RaisingShape") else None,
    ]
    for i, h in enumerate(hostile):
        try:
            h()
        except Exception:
            pass
        rec.count("hostile_events")
        table(f"after-hostile:{i}:top", shuffled()[:8])
        with jaxtyped("context"):
            try:
                h()
            except Exception:
                pass
            table(f"after-hostile:{i}:block", shuffled()[:8])
    rec.sample({"carrier": "context", "where": "block", "dtype": "int8", "category": "Float"})


# -------------------------------------------------------------------------------------- user


def shard_user(rec, seed, tier):
    import jaxtyping

    rng = random.Random(f"{seed}/C03/user")
    pool = ["float32", "float64", "float16", "int8", "int32", "uint8", "bfloat16", "complex64", "my_dtype", "float8_e4m3fn", "int4", "datetime64", "timedelta64", "str_", "bytes_", "object_"]
    NP_SPELLING = {"datetime64": "M8[ns]", "timedelta64": "m8[s]", "str_": "U3", "bytes_": "S3", "object_": "O"}
    pats = [r"float\d+", r"u?int(8|16)", r".*", r"float", r"^int32$", r"(b)?float16", r"complex.*", r"my_.*", r"x", r"datetime64", r"(str|bytes)_", r"object_?"]
    n = 250 if tier == "quick" else 2500
    carriers = []
    for nm in pool:
        if nm in NP_SPELLING:
            # numpy's parametrised dtypes: the name a category is matched against is that of the scalar type
            carriers.append((nm, "numpy", np.zeros((2,), dtype=NP_SPELLING[nm]), np.ndarray))
            continue
        if nm != "my_dtype":
            carriers.append((nm, "numpy", np.zeros((2,), dtype=nm), np.ndarray))
        carriers.append((nm, "duck", real.Duck((2,), nm), real.Duck))
        carriers.append((nm, "torchlike", real.Duck((2,), TorchLikeDtype("torch", nm)), real.Duck))
    for i in range(n):
        k = rng.choice((1, 1, 2, 3))
        spec = []
        for _ in range(k):
            spec.append(rng.choice(pool) if rng.random() < 0.6 else re.compile(rng.choice(pats)))
        form = rng.choice(("list", "tuple", "single")) if k == 1 else rng.choice(("list", "tuple"))
        dtypes = spec[0] if form == "single" else (list(spec) if form == "list" else tuple(spec))
        C = type(f"U{i}", (jaxtyping.AbstractDtype,), {"dtypes": dtypes})
        rec.count("user.categories")
        for nm, cn, x, at in carriers:
            exp = any((s == nm) if isinstance(s, str) else bool(s.match(nm)) for s in spec)
            got = real.check(x, C[at, "..."])
            rec.case(("user", repr(dtypes), nm, cn), True)
            rec.count("triples.user")
            if got != ("ok" if exp else "no"):
                rec.violation("user-category", {"dtypes": repr(dtypes), "dtype": nm, "carrier": cn}, f"user category {dtypes!r} vs {cn} dtype {nm}: want {'ok' if exp else 'no'} got {got}", mechanism=f"user-category-{cn}-got-{got}")
    rec.sample({"carrier": "user", "dtypes": ["float32", "re:u?int(8|16)"], "dtype": "uint16"})


def run_shard(rec, seed, shard, tier):
    warnings.filterwarnings("ignore")
    c = shard["carrier"]
    rev = bool(shard.get("reverse"))
    if rev:
        rec.count("reverse_order_shards")
    if c == "numpy":
        shard_numpy(rec, rev)
    elif c == "jax":
        shard_jax(rec, rev)
    elif c == "jaxtrace":
        shard_jaxtrace(rec)
    elif c == "tf":
        shard_tf(rec)
    elif c == "duck":
        shard_duck(rec, rev)
    elif c == "context":
        shard_context(rec, seed)
    else:
        shard_user(rec, seed, tier)


def replay(rec, case):
    warnings.filterwarnings("ignore")
    c = case.get("carrier")
    sub = Rec_filter(rec, case)
    {"numpy": shard_numpy, "jax": shard_jax, "jaxtrace": shard_jaxtrace, "tf": shard_tf, "duck": shard_duck, "context": lambda r: shard_context(r, 0)}.get(c if not case.get("where") else "context", lambda r: shard_user(r, 0, "quick"))(sub)


class Rec_filter:
    """replay re-runs the (finite) carrier table and keeps only the recorded cell"""

    def __init__(self, rec, case):
        self._rec, self._case = rec, case
        self.info, self.inconclusive = {}, []

    def violation(self, kind, case, detail="", mechanism=None):
        keys = ("carrier", "dtype", "category", "type_name")
        if all(case.get(k) == self._case.get(k) for k in keys if k in self._case):
            self._rec.violation(kind, case, detail, mechanism)

    def __getattr__(self, name):
        return getattr(self._rec, name)

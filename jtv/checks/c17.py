"""C17 — verdicts depend on type, shape and dtype only, so tracing equals eager."""

from __future__ import annotations

import random
import warnings

import numpy as np

from .. import real
from ..gen import signatures as GS
from ..model import dims as M
from ..model import sat as SAT

LEVEL = "exploration"
TECHNIQUE = "runtime monitoring: the eager call on concrete arrays is the specification; each generated decorated function is also run under jit, vmap (random in_axes), grad, eval_shape and their compositions with tracers carrying the same shapes/dtypes; a spy on Tracer.__bool__/__array__/__int__/__index__/__float__ counts forced concretisations during checking; value-independence checked with zeros/random/nan/inf; functions mutating a container argument, TypeVar array types with mixed tracers, weakly typed values, decorated dataclasses handed to transformations; symbolic axes over static attributes of array arguments ({x.ndim}, {x.shape[0]}, {len(x)}, {x.size})"
LEVEL_TEXT = (
    "Held on every generated function x transformation explored (hundreds of functions x 7 transformations x 2 "
    "typecheckers; satisfiable and unsatisfiable argument tuples, PyTree arguments). Sampling, not proof."
)
LEVEL_NOTE = "The harness computes the shapes the tracers carry (vmap: mapped axis removed) without asking jaxtyping; the order-free satisfiability oracle cross-checks the eager verdict."
RULE = (
    "one case = (signature, argument shapes, transformation, typechecker); non-trivial = >=2 annotated values sharing an "
    "axis name, or a PyTree argument; distinct by that tuple."
)
ASSUMPTIONS = ["float32 arrays only (grad needs inexact inputs)"]
CASES = {"quick": 24, "thorough": 400}
NSHARDS = 16
SHARD_TIMEOUT = {"quick": 900, "thorough": 3600}
TRANSFORMS = ["jit", "vmap", "grad", "eval_shape", "jit_vmap", "vmap_grad", "jit_grad"]


def shards(tier):
    return [{"i": i} for i in range(NSHARDS)]


def required_counters(tier):
    d = {"transform." + t: 50 for t in TRANSFORMS}
    d.update({"static_attribute.cases": 40, "eager.accept": 50, "eager.reject": 50, "value_independence": 100, "pytree_args": 20, "tracer_checks_observed": 500, "oracle_crosscheck": 100, "param_named_like_symbolic_name": 30, "question.cases": 50, "dict.cases": 50, "rechecked_after_warmup": 100, "mutation.cases": 50, "weak.cases": 100, "buffer_and_key.cases": 30, "rank0_any.cases": 50, "local_string_annotations.cases": 50, "dataclass.cases": 100, "typevar.mixed_tracer_concrete": 200})
    return d


SPY = {"n": 0, "active": False, "where": []}


def install_spy():
    import jax

    T = jax.core.Tracer
    for name in ("__bool__", "__array__", "__int__", "__index__", "__float__", "__complex__"):
        orig = getattr(T, name, None)
        if orig is None or getattr(orig, "_jtv_spy", False):
            continue

        def mk(orig, name):
            def spy(self, *a, **k):
                if SPY["active"]:
                    SPY["n"] += 1
                    SPY["where"].append(name)
                return orig(self, *a, **k)

            spy._jtv_spy = True
            return spy

        setattr(T, name, mk(orig, name))


def classify(e):
    from jaxtyping import AnnotationError, TypeCheckError

    n = type(e).__name__
    if isinstance(e, TypeCheckError):
        return "reject"
    if isinstance(e, AnnotationError):
        return "annot"
    if "Concretization" in n or "TracerBool" in n or "TracerArray" in n or "TracerInteger" in n:
        return "concretization:" + n
    return "exc:" + n


def make_fn(sig, retshape, checker, tree_param):
    import jax
    import jax.numpy as jnp

    import jaxtyping
    from jaxtyping import jaxtyped

    names = [p[0] for p in sig["params"]]
    ns = {"__name__": "jtv_c17_generated", "jnp": jnp, "SPY": SPY}
    for n, spec in sig["params"]:
        ann = jaxtyping.Float[jax.Array, spec]
        if n == tree_param:
            ann = jaxtyping.PyTree[ann]
        ns[f"T_{n}"] = ann
    retstr = ""
    if sig["ret"] is not None:
        ns["T_ret"] = jaxtyping.Float[jax.Array, sig["ret"]]
        retstr = " -> T_ret"
    ns["RETSHAPE"] = tuple(retshape) if retshape is not None else ()
    first = names[0]
    lead = f"{first}[0]" if first == tree_param else first
    src = (
        f"def f({', '.join(f'{n}: T_{n}' for n in names)}){retstr}:\n"
        f"    SPY['active'] = False\n"
        f"    out = jnp.zeros(RETSHAPE, dtype='float32') + 0.0 * jnp.sum({lead})\n"
        f"    SPY['active'] = True\n"
        f"    return out\n"
    )
    real.exec_src(src, ns)
    return jaxtyped(typechecker=checker)(ns["f"]), names


def run_case(rec, rng, rngkey=None):
    import beartype
    import jax
    import jax.numpy as jnp
    import typeguard

    sig = GS.gen_signature(rng, max_params=3, p_ret=0.8, allow_symbolic=True)
    # a consistent tuple first (used as warm-up of the same function), the tested tuple is a copy of it
    # with ONE value changed: every other value - e.g. the one under a symbolic annotation - keeps its shape
    base_shapes, base_ret = GS.gen_values(rng, sig, p_perturb=0.0)
    base_shapes = [[max(s, 1) for s in sh] for sh in base_shapes]
    base_ret = [max(s, 1) for s in base_ret] if base_ret is not None else None
    shapes = [list(sh) for sh in base_shapes]
    retshape = list(base_ret) if base_ret is not None else None
    if rng.random() < 0.55:
        i = rng.randrange(len(shapes) + (1 if retshape is not None else 0))
        tgt = shapes[i] if i < len(shapes) else retshape
        k = rng.random()
        if tgt and k < 0.2:
            del tgt[:]  # the offending value is a rank-0 array (eagerly printable by value, a tracer is not)
            rec.count("perturbed_to_rank0")
        elif tgt and k < 0.35:
            del tgt[rng.randrange(len(tgt))]
        elif tgt and k < 0.45:
            tgt.insert(rng.randint(0, len(tgt)), rng.choice((1, 2, 3)))
        elif tgt:
            j = rng.randrange(len(tgt))
            tgt[j] = rng.choice([z for z in (1, 2, 3, 4, 5) if z != tgt[j]])
        else:
            tgt.append(2)
    if rng.random() < 0.25:
        # a scalar-array parameter whose NAME also occurs in a symbolic axis without being an axis:
        # the name is unbound (AnnotationError, eagerly and traced alike) - the parameter's VALUE must
        # never leak into the size comparison
        pname = rng.choice(("k", "n", "q"))
        sig["params"].append([pname, ""])
        shapes.append([])
        expr = rng.choice((f"{pname}+1", f"2*{pname}", f"a+{pname}"))
        if sig["ret"] is not None and rng.random() < 0.6:
            sig["ret"] = (sig["ret"] + " " + expr).strip()
            retshape = list(retshape) + [2]
        else:
            sig["params"][0][1] = (sig["params"][0][1] + " " + expr).strip()
            shapes[0] = list(shapes[0]) + [2]
        rec.count("param_named_like_symbolic_name")
    names = [p[0] for p in sig["params"]]
    tree_param = names[-2] if (len(names) >= 3 and rng.random() < 0.3) else None
    if tree_param is not None:
        rec.count("pytree_args")
    pairs = [(M.parse(p[1]), tuple(sh)) for p, sh in zip(sig["params"], shapes)]
    if tree_param is not None:
        pairs.append(pairs[names.index(tree_param)])  # the tree holds two leaves of the same shape
    if sig["ret"] is not None:
        pairs.append((M.parse(sig["ret"]), tuple(retshape)))
    oracle = SAT.satisfiable(pairs)

    def mkargs(fill):
        out = []
        for n, sh in zip(names, shapes):
            if fill == "zeros":
                a = np.zeros(sh, dtype="float32")
            elif fill == "random":
                a = np.asarray(np.random.RandomState(0).standard_normal(tuple(sh)), dtype="float32")
            elif fill == "nan":
                a = np.full(sh, np.nan, dtype="float32")
            else:
                a = np.full(sh, np.inf, dtype="float32")
            a = jax.device_put(a)
            out.append([a, a] if n == tree_param else a)
        return out

    for cname, checker in (("typeguard", typeguard.typechecked), ("beartype", beartype.beartype)):
        f, _ = make_fn(sig, retshape, checker, tree_param)
        case = {"sig": sig, "shapes": shapes, "ret": retshape, "tree_param": tree_param, "checker": cname, "rngkey": rngkey}

        def attempt(thunk):
            SPY["n"], SPY["where"] = 0, []
            SPY["active"] = True
            try:
                thunk()
                v = "accept"
            except Exception as e:  # noqa
                v = classify(e)
            finally:
                SPY["active"] = False
            return v, SPY["n"], list(SPY["where"])

        z = mkargs("zeros")
        eager, _, _ = attempt(lambda: f(*z))
        # warm-up of the SAME decorated function with other sizes (whatever it answers), then again:
        # the verdict for the original arguments must not have changed, eagerly or traced
        try:
            for wshapes in (base_shapes, [[d + 2 for d in sh] for sh in shapes]):
                warm = []
                for n_, sh in zip(names, wshapes):
                    a_ = jax.device_put(np.zeros(sh, dtype="float32"))
                    warm.append([a_, a_] if n_ == tree_param else a_)
                attempt(lambda: f(*warm))
                attempt(lambda: jax.jit(f)(*warm))
        except Exception:
            pass
        eager2, _, _ = attempt(lambda: f(*z))
        rec.count("rechecked_after_warmup")
        if eager2 != eager:
            rec.violation("history-dependence", case, f"eager verdict {eager} became {eager2} after the same function was called with other sizes", mechanism="verdict-changes-after-warmup")
        rec.count("eager." + (eager if eager in ("accept", "reject") else "other"))
        if oracle in ("sat", "unsat") and eager in ("accept", "reject"):
            rec.count("oracle_crosscheck")
            if (oracle == "sat") != (eager == "accept"):
                rec.violation("eager-vs-oracle", case, f"eager verdict {eager} but satisfiability oracle says {oracle}", mechanism=f"eager-{eager}-oracle-{oracle}")
        # value independence
        for fill in ("random", "nan", "inf"):
            filled = mkargs(fill)
            v, _, _ = attempt(lambda: f(*filled))
            rec.count("value_independence")
            rec.case((sig, shapes, retshape, cname, "fill:" + fill), nontrivial=len(pairs) >= 2)
            if v != eager:
                rec.violation("value-dependence", dict(case, fill=fill), f"eager verdict on zeros {eager} but on {fill}-filled arrays {v}", mechanism="verdict-depends-on-values")
        args = mkargs("random")
        B = 3

        def batched(in_axes):
            out = []
            for a, ax, n in zip(args, in_axes, names):
                def bat(x, ax=ax):
                    if ax is None:
                        return x
                    return jnp.stack([x] * B, axis=ax)
                out.append([bat(a[0]), bat(a[1])] if n == tree_param else bat(a))
            return out

        def rand_axes():
            axes = []
            for sh in shapes:
                axes.append(rng.choice([None] + list(range(len(sh) + 1))))
            if all(a is None for a in axes):
                axes[0] = 0
            return axes

        scalar = lambda *a: jnp.sum(f(*a)) if sig["ret"] is not None or True else 0.0
        first_is_tree = names[0] == tree_param

        for t in TRANSFORMS:
            in_axes = rand_axes()
            if t == "jit":
                thunk = lambda: jax.jit(f)(*args)
            elif t == "vmap":
                thunk = lambda: jax.vmap(f, in_axes=tuple(in_axes))(*batched(in_axes))
            elif t == "grad":
                thunk = lambda: jax.grad(scalar)(*args)
            elif t == "eval_shape":
                sds = [[jax.ShapeDtypeStruct(a[0].shape, a[0].dtype)] * 2 if n == tree_param else jax.ShapeDtypeStruct(a.shape, a.dtype) for a, n in zip(args, names)]
                thunk = lambda: jax.eval_shape(f, *sds)
            elif t == "jit_vmap":
                thunk = lambda: jax.jit(jax.vmap(f, in_axes=tuple(in_axes)))(*batched(in_axes))
            elif t == "vmap_grad":
                thunk = lambda: jax.vmap(jax.grad(scalar), in_axes=tuple(in_axes))(*batched(in_axes))
            else:
                thunk = lambda: jax.jit(jax.grad(scalar))(*args)
            v, nspy, where = attempt(thunk)
            rec.count("transform." + t)
            rec.count("tracer_checks_observed", len(pairs))
            rec.case((sig, shapes, retshape, cname, t, tuple(in_axes) if "vmap" in t else None), nontrivial=len(pairs) >= 2 or tree_param is not None)
            c2 = dict(case, transform=t, in_axes=in_axes)
            if v.startswith("concretization"):
                rec.violation("concretization", c2, f"{t}: {v} escaped from a traced call", mechanism="concretization-error-" + t)
            elif v != eager:
                rec.violation("trace-vs-eager", c2, f"{t} (in_axes={in_axes}): traced call {v}, eager call on the same shapes/dtypes {eager}", mechanism=f"trace-{v.split(':')[0]}-eager-{eager}")
            if nspy:
                rec.violation("forced-concretization", c2, f"{t}: checking forced a tracer to a concrete value {nspy}x via {sorted(set(where))}", mechanism="tracer-forced-" + sorted(set(where))[0])


def run_question_case(rec, rng, rngkey):
    """'?' axes under tracing: eagerly the same array OBJECT may sit at two leaf positions, tracers never
    do - the verdict must not depend on object identity"""
    import beartype
    import jax
    import jax.numpy as jnp
    import typeguard

    import jaxtyping
    from jaxtyping import jaxtyped

    n1, n2, n3 = (rng.choice((2, 3, 4)) for _ in range(3))
    spec = rng.choice(("?n", "*?n", "?n 2"))
    mk = lambda n: jax.device_put(np.zeros((n, 2) if spec == "?n 2" else (n,), dtype="float32"))
    a, b, c = mk(n1), mk(n2), mk(n3)
    form = rng.choice(("tuple", "list", "dict"))
    wrap = {"tuple": lambda x, y: (x, y), "list": lambda x, y: [x, y], "dict": lambda x, y: {"p": x, "q": y}}[form]
    t1, t2 = wrap(a, a), wrap(b, c)  # the SAME object twice in the first tree
    ann = jaxtyping.PyTree[jaxtyping.Float[jax.Array, spec], "T"]
    for cname, checker in (("typeguard", typeguard.typechecked), ("beartype", beartype.beartype)):
        ns = {"__name__": "jtv_c17_generated", "T_a": ann, "jnp": jnp, "jax": jax}
        real.exec_src("def f(t1: T_a, t2: T_a):\n    return sum(jnp.sum(l) for l in jax.tree_util.tree_leaves((t1, t2)))\n", ns)
        f = jaxtyped(typechecker=checker)(ns["f"])

        def attempt(thunk):
            try:
                thunk()
                return "accept"
            except Exception as e:  # noqa
                return classify(e)

        eager = attempt(lambda: f(t1, t2))
        expect = "accept" if (n1 == n2 and n1 == n3) else "reject"
        case = {"question_case": True, "sizes": [n1, n2, n3], "spec": spec, "form": form, "checker": cname, "rngkey": rngkey}
        rec.count("question.cases")
        rec.case(("q", n1, n2, n3, spec, form, cname), True)
        if eager != expect:
            rec.violation("eager-vs-oracle", case, f"f(({n1},{n1} same object), ({n2},{n3})) with '{spec}': eager {eager}, expected {expect}", mechanism=f"question-eager-{eager}-expected-{expect}")
        for t, thunk in (("jit", lambda: jax.jit(f)(t1, t2)), ("eval_shape", lambda: jax.eval_shape(f, t1, t2)), ("grad", lambda: jax.grad(f)(t1, t2)), ("vmap", lambda: jax.vmap(f)(jax.tree_util.tree_map(lambda x: jnp.stack([x, x]), t1), jax.tree_util.tree_map(lambda x: jnp.stack([x, x]), t2)))):
            v = attempt(thunk)
            rec.count("transform." + t)
            if v != eager:
                rec.violation("trace-vs-eager", dict(case, transform=t), f"'?' axes, same object at two leaves: {t} {v}, eager {eager}", mechanism=f"question-trace-{v.split(':')[0]}-eager-{eager}")


def run_dict_case(rec, rng, rngkey):
    """a dict of arrays sharing a broadcastable variadic axis: jit/grad/eval_shape hand the entries over in
    sorted-key order, an eager call in insertion order - the verdict is order-free by the property"""
    import beartype
    import jax
    import jax.numpy as jnp
    import typeguard

    import jaxtyping
    from jaxtyping import jaxtyped

    from ..model import dims as MD

    keys = rng.sample(["z", "a", "m", "k", "b"], rng.choice((3, 3, 4)))
    shapes = {k: rng.choice(((1,), (3,), (4,), (1, 3), (2, 3), (2, 1), ())) for k in keys}
    spec = rng.choice(("*#b", "*#b", "*#b 2"))
    d = {k: jax.device_put(np.zeros(shapes[k] + ((2,) if spec.endswith("2") else ()), dtype="float32")) for k in keys}
    acc = ()
    sat = True
    for k in keys:
        acc = MD.broadcast_shapes(acc, shapes[k])
        if acc is None:
            sat = False
            break
    expect = "accept" if sat else "reject"
    ann = dict[str, jaxtyping.Float[jax.Array, spec]]
    for cname, checker in (("typeguard", typeguard.typechecked), ("beartype", beartype.beartype)):
        ns = {"__name__": "jtv_c17_generated", "T_d": ann, "jnp": jnp, "jax": jax}
        real.exec_src("def f(d: T_d):\n    return sum(jnp.sum(v) for v in d.values())\n", ns)
        f = jaxtyped(typechecker=checker)(ns["f"])

        def attempt(thunk):
            try:
                thunk()
                return "accept"
            except Exception as e:  # noqa
                return classify(e)

        eager = attempt(lambda: f(d))
        case = {"dict_case": True, "keys_in_insertion_order": keys, "shapes": {k: list(v) for k, v in shapes.items()}, "spec": spec, "checker": cname, "rngkey": rngkey}
        rec.count("dict.cases")
        rec.case(("dict", tuple(keys), tuple(shapes[k] for k in keys), spec, cname), True)
        if cname == "typeguard" and eager != expect:
            rec.violation("eager-vs-oracle", case, f"dict entries {[(k, shapes[k]) for k in keys]} against '{spec}': eager {eager}, order-free oracle {expect}", mechanism=f"dict-eager-{eager}-oracle-{expect}")
        for t, thunk in (("jit", lambda: jax.jit(f)(d)), ("eval_shape", lambda: jax.eval_shape(f, d)), ("grad", lambda: jax.grad(f)(d))):
            v = attempt(thunk)
            rec.count("transform." + t)
            if v != eager:
                rec.violation("trace-vs-eager", dict(case, transform=t), f"dict argument: {t} {v}, eager {eager} (same shapes and dtypes, entries reordered by jax)", mechanism=f"dict-trace-{v.split(':')[0]}-eager-{eager}")


def run_mixed_case(rec, rng, rngkey):
    """(a) a function that MUTATES a container argument so that it no longer fits (parameters are re-checked
    together with the return value): refused eagerly and traced alike; (b) array types given by a TypeVar when
    tracers and concrete arrays are mixed in one call (vmap with in_axes=None, grad w.r.t. one argument, a closed-
    over argument under jit): a TypeVar stands for 'any array-like', not for one concrete class"""
    import functools
    import typing

    import beartype
    import jax
    import jax.numpy as jnp
    import typeguard

    import jaxtyping
    from jaxtyping import jaxtyped

    def attempt(thunk):
        try:
            thunk()
            return "accept"
        except Exception as e:  # noqa
            return classify(e)

    n = rng.choice((2, 3))
    m = rng.choice((n, n, n + 1, n + 2))
    T = typing.TypeVar("T")
    for cname, checker in (("typeguard", typeguard.typechecked), ("beartype", beartype.beartype)):
        # (a) - typeguard only: beartype looks at ONE randomly chosen item of a list per call
        ns = {"__name__": "jtv_c17_generated", "jnp": jnp, "L": list[jaxtyping.Float[jax.Array, "n"]], "Y": jaxtyping.Float[jax.Array, "m"], "R": jaxtyping.Float[jax.Array, ""]}
        real.exec_src("def f(xs: L, y: Y) -> R:\n    xs.append(y)\n    return jnp.sum(y) + sum(jnp.sum(x) for x in xs)\n", ns)
        f = jaxtyped(typechecker=checker)(ns["f"])
        mk = lambda: ([jax.device_put(np.zeros((n,), dtype="float32")), jax.device_put(np.ones((n,), dtype="float32"))], jax.device_put(np.zeros((m,), dtype="float32")))
        eager = attempt(lambda: f(*mk()))
        want = "accept" if n == m else "reject"
        case = {"mixed_case": "mutated-argument", "n": n, "m": m, "checker": cname, "rngkey": rngkey}
        rec.count("mutation.cases")
        rec.case(("mutation", n, m, cname), True)
        if cname == "typeguard" and eager != want:
            rec.violation("eager-vs-oracle", case, f"f appends y (size {m}) to xs: list of size-{n} arrays: eager {eager}, expected {want}", mechanism=f"mutation-eager-{eager}-expected-{want}")
        for t, thunk in () if cname != "typeguard" else (("jit", lambda: jax.jit(f)(*mk())), ("eval_shape", lambda: jax.eval_shape(f, *mk())), ("grad", lambda: jax.grad(f, argnums=1)(*mk())), ("vmap", lambda: jax.vmap(f, in_axes=(None, 0))(mk()[0], jnp.stack([mk()[1]] * 2)))):
            v = attempt(thunk)
            rec.count("transform." + t)
            if v != eager:
                rec.violation("trace-vs-eager", dict(case, transform=t), f"function that mutates its list argument (n={n}, m={m}): {t} {v}, eager {eager}", mechanism=f"mutation-trace-{v.split(':')[0]}-eager-{eager}")
        # (b)
        ns = {"__name__": "jtv_c17_generated", "jnp": jnp, "X": jaxtyping.Float[T, "n"], "W": jaxtyping.Float[T, "n"], "R": jaxtyping.Float[T, "n"]}
        real.exec_src("def g(x: X, w: W) -> R:\n    return x * w\n", ns)
        g = jaxtyped(typechecker=checker)(ns["g"])
        x, w = jax.device_put(np.ones((n,), dtype="float32")), jax.device_put(np.ones((m,), dtype="float32"))
        eager = attempt(lambda: g(x, w))
        case = {"mixed_case": "typevar", "n": n, "m": m, "checker": cname, "rngkey": rngkey}
        rec.count("typevar.cases")
        rec.case(("typevar", n, m, cname), True)
        if eager != want:
            rec.violation("eager-vs-oracle", case, f"g(x: Float[T,'n'], w: Float[T,'n']) with sizes {n},{m}: eager {eager}, expected {want}", mechanism=f"typevar-eager-{eager}-expected-{want}")
        # annotations written as strings that name a LOCAL alias (only resolvable, if at all, from the defining scope):
        # whatever the library makes of them, traced calls and eager calls get the same treatment - in either order
        def local_scope(first):
            nsl = {"__name__": "jtv_c17_generated", "jnp": jnp, "jax": jax, "jaxtyped": jaxtyped, "tc": checker, "LL": jaxtyping.Float[jax.Array, "n"], "classify": classify}
            src = (
                "def outer(first, a, b, a2, b2):\n"
                "    L = LL\n"
                "    @jaxtyped(typechecker=tc)\n"
                "    def f(x: 'L', y: 'L'):\n"
                "        return jnp.sum(x) + jnp.sum(y)\n"
                "    res = {}\n"
                "    for k in [first] + [q for q in ('eager', 'jit', 'eval_shape', 'vmap') if q != first]:\n"
                "        try:\n"
                "            if k == 'eager':\n"
                "                f(a, b)  # called from the very frame in which L is a local name\n"
                "            elif k == 'jit':\n"
                "                jax.jit(f)(a, b)\n"
                "            elif k == 'eval_shape':\n"
                "                jax.eval_shape(f, a, b)\n"
                "            else:\n"
                "                jax.vmap(f)(a2, b2)\n"
                "            res[k] = 'accept'\n"
                "        except Exception as e:\n"
                "            res[k] = classify(e)\n"
                "    return res\n"
            )
            real.exec_src(src, nsl)
            a, b = jax.device_put(np.zeros((n,), "float32")), jax.device_put(np.zeros((m,), "float32"))
            return nsl["outer"](first, a, b, jnp.stack([a, a]), jnp.stack([b, b]))

        for first in ("jit", "eager"):
            res = local_scope(first)
            rec.count("local_string_annotations.cases")
            if len(set(res.values())) > 1:
                rec.violation("trace-vs-eager", dict(case, first_call=first, local_string_annotations=True), f"function whose annotations are strings naming a local alias (sizes {n},{m}; first call: {first}): {res}", mechanism="local-string-annotations-eager-and-traced-differ")
        # rank-0 values behind `Any` / an unconstrained TypeVar (a rank-0 shape is `()`, which is falsy)
        ns0 = {"__name__": "jtv_c17_generated", "jnp": jnp, "X": jaxtyping.Float[typing.Any, "n"], "S": jaxtyping.Float[T, ""], "R": jaxtyping.Float[typing.Any, ""]}
        real.exec_src("def r0(x: X, s: S) -> R:\n    return jnp.sum(x) * s\n", ns0)
        r0 = jaxtyped(typechecker=checker)(ns0["r0"])
        s0 = jax.device_put(np.float32(2.0))
        e0 = attempt(lambda: r0(x, s0))
        rec.count("rank0_any.cases")
        if e0 != "accept":
            rec.violation("eager-vs-oracle", dict(case, fn="r0"), f"r0(x: Float[Any,'n'], s: Float[T,'']) -> Float[Any,''] eagerly: {e0}", mechanism="rank0-any-eager-" + e0)
        for t, thunk in (("jit", lambda: jax.jit(r0)(x, s0)), ("vmap", lambda: jax.vmap(r0, in_axes=(0, None))(jnp.stack([x, x]), s0)), ("vmap-scalar", lambda: jax.vmap(r0, in_axes=(None, 0))(x, jnp.stack([s0, s0]))), ("grad", lambda: jax.grad(r0, argnums=1)(x, s0)), ("eval_shape", lambda: jax.eval_shape(r0, x, s0))):
            v = attempt(thunk)
            rec.count("transform." + t.split("-")[0])
            if v != e0:
                rec.violation("trace-vs-eager", dict(case, transform=t, fn="r0"), f"rank-0 values behind Any / TypeVar: {t} {v}, eager {e0}", mechanism=f"rank0-any-trace-{v.split(':')[0]}-eager-{e0}")
        sc = lambda a, b: jnp.sum(g(a, b))
        for t, thunk in (
            ("jit", lambda: jax.jit(g)(x, w)),
            ("jit-closed-over", lambda: jax.jit(lambda a: g(a, w))(x)),
            ("vmap-partial", lambda: jax.vmap(g, in_axes=(0, None))(jnp.stack([x, x]), w)),
            ("vmap-partial-2", lambda: jax.vmap(g, in_axes=(None, 0))(x, jnp.stack([w, w]))),
            ("grad-x", lambda: jax.grad(sc, argnums=0)(x, w)),
            ("grad-w", lambda: jax.grad(sc, argnums=1)(x, w)),
            ("eval_shape", lambda: jax.eval_shape(g, x, w)),
            ("jit-grad-closed", lambda: jax.jit(jax.grad(lambda a: sc(a, w)))(x)),
            ("numpy-and-jax", lambda: jax.jit(g)(np.ones((n,), dtype="float32"), w)),
        ):
            v = attempt(thunk)
            rec.count("transform." + t.split("-")[0])
            rec.count("typevar.mixed_tracer_concrete")
            if v != eager:
                rec.violation("trace-vs-eager", dict(case, transform=t), f"TypeVar array types, sizes {n},{m}: {t} {v}, eager {eager}", mechanism=f"typevar-trace-{v.split(':')[0]}-eager-{eager}")


def run_buffer_and_key_case(rec, rng, rngkey):
    """only shape and dtype count: (a) an array whose buffer has been deleted / donated still has both (the eager call is
    judged like the abstract call); (b) a new-style typed PRNG key is not a uint32 array - eagerly or traced"""
    import beartype
    import jax
    import jax.numpy as jnp
    import typeguard

    import jaxtyping
    from jaxtyping import jaxtyped

    def attempt(thunk):
        try:
            thunk()
            return "accept"
        except Exception as e:  # noqa
            return classify(e)

    n = rng.choice((2, 3))
    for cname, checker in (("typeguard", typeguard.typechecked), ("beartype", beartype.beartype)):
        ns = {"__name__": "jtv_c17_generated", "jnp": jnp, "X": jaxtyping.Float[jax.Array, "n"], "K": jaxtyping.UInt32[jax.Array, "2"], "KK": jaxtyping.Key[jax.Array, ""]}
        real.exec_src("def f(x: X) -> X:\n    return x\ndef g(key: K, x: X):\n    return x\ndef h(key: KK, x: X):\n    return x\n", ns)
        f, g, h = (jaxtyped(typechecker=checker)(ns[k]) for k in ("f", "g", "h"))
        x = jax.device_put(np.zeros((n,), "float32"))
        dead = jax.device_put(np.ones((n,), "float32"))
        dead.delete()
        case = {"buffer_case": True, "n": n, "checker": cname, "rngkey": rngkey}
        rec.count("buffer_and_key.cases")
        rec.case(("buffer-key", n, cname), True)
        e_dead = attempt(lambda: f(dead))
        a_dead = attempt(lambda: jax.eval_shape(f, dead))
        if e_dead != "accept" or a_dead != "accept":
            rec.violation("trace-vs-eager", dict(case, what="deleted-buffer"), f"f(x: Float[Array,'n']) on an array whose buffer was deleted (shape and dtype intact): eager {e_dead}, eval_shape {a_dead}; expected accept for both", mechanism="verdict-depends-on-buffer-state")
        key = jax.random.key(0)
        old_key = jax.random.PRNGKey(0)
        for fn_name, fn, k, want in (("g(key: UInt32[Array,'2'])", g, key, "reject"), ("g(key: UInt32[Array,'2'])", g, old_key, "accept"), ("h(key: Key[Array,''])", h, key, "accept"), ("h(key: Key[Array,''])", h, old_key, "reject")):
            kind = "typed key" if k is key else "old-style uint32 key"
            res = {"eager": attempt(lambda: fn(k, x)), "jit": attempt(lambda: jax.jit(fn)(k, x)), "eval_shape": attempt(lambda: jax.eval_shape(fn, k, x)), "vmap": attempt(lambda: jax.vmap(fn, in_axes=(0, None))(jax.random.split(k, 2) if k is key else jnp.stack([k, k]), x))}
            rec.count("transform.jit")
            if set(res.values()) != {want}:
                rec.violation("trace-vs-eager", dict(case, what=fn_name, key=kind), f"{fn_name} called with a {kind}: {res}, expected {want} everywhere", mechanism="prng-key-" + ("eager" if res["eager"] != want else "traced") + "-deviates")


def run_static_attribute_case(rec, rng, rngkey):
    """symbolic axes that read STATIC facts about an array argument - `{x.ndim}`, `{x.shape[0]}`, `{len(x)}`,
    `{x.size}`, `{x.dtype.itemsize}` - known while tracing exactly as they are eagerly: same verdict"""
    import beartype
    import jax
    import jax.numpy as jnp
    import typeguard

    import jaxtyping
    from jaxtyping import jaxtyped

    def attempt(thunk):
        try:
            thunk()
            return "accept"
        except Exception as e:  # noqa
            return classify(e)

    exprs = ["{x.ndim}", "{x.shape[0]}", "{len(x)}", "{x.size}", "{x.dtype.itemsize}", "{x.shape[-1]}+1", "{x.ndim}*{x.shape[0]}"]
    expr = rng.choice(exprs)
    shape = rng.choice(((2,), (3,), (2, 3), (4, 1)))
    x = jax.device_put(np.zeros(shape, "float32"))
    true_size = eval(expr.replace("{", "(").replace("}", ")"), {"x": np.zeros(shape, "float32"), "len": len})
    good = rng.random() < 0.5
    m = true_size if good else true_size + 1
    for cname, checker in (("typeguard", typeguard.typechecked), ("beartype", beartype.beartype)):
        ns = {"__name__": "jtv_c17_generated", "jnp": jnp, "X": jaxtyping.Float[jax.Array, "..."], "R": jaxtyping.Float[jax.Array, expr], "M": m}
        real.exec_src("def f(x: X) -> R:\n    return jnp.zeros((M,), 'float32')\ndef g(x: X, y: R):\n    return x\n", ns)
        f, g = (jaxtyped(typechecker=checker)(ns[k]) for k in ("f", "g"))
        y = jax.device_put(np.zeros((m,), "float32"))
        want = "accept" if good else "reject"
        case = {"static_attribute_case": True, "expr": expr, "x_shape": list(shape), "returned_size": m, "checker": cname, "rngkey": rngkey}
        rec.count("static_attribute.cases")
        rec.case(("static-attr", expr, shape, good, cname), True)
        for label, call_e, calls in (
            ("return annotation", lambda: f(x), {"jit": lambda: jax.jit(f)(x), "eval_shape": lambda: jax.eval_shape(f, x), "grad": lambda: jax.grad(lambda a: f(a).sum())(x)}),
            ("parameter annotation", lambda: g(x, y), {"jit": lambda: jax.jit(g)(x, y), "eval_shape": lambda: jax.eval_shape(g, x, y), "jit-of-lambda": lambda: jax.jit(lambda a, b: g(a, b))(x, y)}),
        ):
            eager = attempt(call_e)
            if eager != want:
                rec.violation("eager-vs-oracle", dict(case, where=label), f"{label} Float[Array, {expr!r}] with x of shape {shape} and a size-{m} value: eager {eager}, expected {want}", mechanism=f"static-attribute-eager-{eager}-expected-{want}")
                return
            for t, thunk in calls.items():
                if thunk is None:
                    continue
                v = attempt(thunk)
                rec.count("transform." + t)
                if v != eager:
                    rec.violation("trace-vs-eager", dict(case, where=label, transform=t), f"{label} Float[Array, {expr!r}] (x of shape {shape}, value of size {m}): {t} {v}, eager {eager}", mechanism=f"static-attribute-{t}-{v.split(':')[0]}-eager-{eager}")
                    return


def run_weak_case(rec, rng, rngkey):
    """weakly typed values (Python scalars handed to jit / grad / eval_shape, jnp.asarray(2.0), jnp.full): the
    tracer carries a shape and a dtype; `weak_type` is not part of either - the verdict is the one an eager call on
    a committed array of that shape and dtype gets"""
    import beartype
    import jax
    import jax.numpy as jnp
    import typeguard

    import jaxtyping
    from jaxtyping import jaxtyped

    def attempt(thunk):
        try:
            thunk()
            return "accept"
        except Exception as e:  # noqa
            return classify(e)

    cat = rng.choice(("Float16", "Float32", "BFloat16", "Float", "Int8", "Int32", "Int", "Float64", "Inexact", "UInt8"))
    kind = rng.choice(("pyfloat", "pyint", "asarray-float", "full-float", "asarray-int"))
    spec = "" if kind in ("pyfloat", "pyint", "asarray-float", "asarray-int") else "n"
    val = {"pyfloat": 2.0, "pyint": 3, "asarray-float": jnp.asarray(2.0), "asarray-int": jnp.asarray(3), "full-float": jnp.full((3,), 2.0)}[kind]
    carried = jnp.asarray(val)
    strong = jax.device_put(np.zeros(carried.shape, dtype=carried.dtype))  # committed array: same shape, same dtype
    for cname, checker in (("typeguard", typeguard.typechecked), ("beartype", beartype.beartype)):
        ns = {"__name__": "jtv_c17_generated", "jnp": jnp, "X": getattr(jaxtyping, cat)[jax.Array, spec]}
        real.exec_src("def f(x: X):\n    return jnp.sum(x) * 1.0\n", ns)
        f = jaxtyped(typechecker=checker)(ns["f"])
        eager = attempt(lambda: f(strong))
        case = {"weak_case": True, "category": cat, "value": kind, "dtype": str(carried.dtype), "checker": cname, "rngkey": rngkey}
        rec.count("weak.cases")
        rec.case(("weak", cat, kind, cname), True)
        runs = [("jit", lambda: jax.jit(f)(val)), ("eval_shape", lambda: jax.eval_shape(f, jax.ShapeDtypeStruct(carried.shape, carried.dtype, weak_type=True))), ("jit-of-weak-array", lambda: jax.jit(f)(carried))]
        if carried.dtype.kind == "f":
            runs.append(("grad", lambda: jax.grad(f)(val)))
        if carried.ndim:
            runs.append(("vmap", lambda: jax.vmap(f)(jnp.stack([val] * 2))))
        if not isinstance(val, (int, float)):
            runs.append(("eager-weak", lambda: f(val)))
        for t, thunk in runs:
            v = attempt(thunk)
            rec.count("transform." + t.split("-")[0])
            if v != eager:
                rec.violation("trace-vs-eager", dict(case, transform=t), f"{cat}[Array, {spec!r}] on a weakly typed {kind} ({carried.dtype}{list(carried.shape)}): {t} {v}, eager call on a committed array of that shape and dtype {eager}", mechanism=f"weak-type-{t}-{v.split(':')[0]}-eager-{eager}")


_DC = {}


def run_dataclass_case(rec, rng, rngkey):
    """a decorated dataclass (registered as a PyTree) handed DIRECTLY to a transformation - jax.jit(Affine)(w, b):
    its generated __init__ is the decorated function; inconsistent fields are refused under every transformation as
    they are eagerly. (Only refusals are compared for vmap / eval_shape: rebuilding the RESULT from batched or
    abstract leaves is another call, with other arguments.)"""
    import dataclasses

    import beartype
    import jax
    import jax.numpy as jnp
    import typeguard

    import jaxtyping
    from jaxtyping import jaxtyped

    def attempt(thunk):
        try:
            thunk()
            return "accept"
        except Exception as e:  # noqa
            return classify(e)

    for cname, checker in (("typeguard", typeguard.typechecked), ("beartype", beartype.beartype)):
        if cname not in _DC:
            ns = {"__name__": "jtv_c17_generated", "dataclasses": dataclasses, "jaxtyped": jaxtyped, "tc": checker, "W": jaxtyping.Float[jax.Array, "o i"], "B": jaxtyping.Float[jax.Array, "o"]}
            real.exec_src("@jaxtyped(typechecker=tc)\n@dataclasses.dataclass\nclass Affine:\n    w: W\n    b: B\n", ns)
            Affine = ns["Affine"]
            jax.tree_util.register_pytree_node(Affine, lambda a: ((a.w, a.b), None), lambda aux, ch: Affine(*ch))
            _DC[cname] = Affine
        Affine = _DC[cname]
        o, i = rng.choice((2, 3)), rng.choice((2, 4))
        o2 = rng.choice((o, o + 1))
        w, b = jax.device_put(np.zeros((o, i), "float32")), jax.device_put(np.zeros((o2,), "float32"))
        eager = attempt(lambda: Affine(w, b))
        want = "accept" if o == o2 else "reject"
        case = {"dataclass_case": True, "o": o, "i": i, "o2": o2, "checker": cname, "rngkey": rngkey}
        rec.count("dataclass.cases")
        rec.case(("dataclass", o, i, o2, cname), True)
        if eager != want:
            rec.violation("eager-vs-oracle", case, f"Affine(w: {o}x{i}, b: {o2}) eagerly: {eager}, expected {want}", mechanism=f"dataclass-eager-{eager}-expected-{want}")
        runs = [("jit", lambda: jax.jit(Affine)(w, b)), ("jit-lambda", lambda: jax.jit(lambda a, c: Affine(a, c))(w, b))]
        if o != o2:
            runs += [("vmap", lambda: jax.vmap(Affine)(jnp.stack([w, w]), jnp.stack([b, b]))), ("eval_shape", lambda: jax.eval_shape(Affine, jax.ShapeDtypeStruct(w.shape, w.dtype), jax.ShapeDtypeStruct(b.shape, b.dtype))), ("jit-vmap", lambda: jax.jit(jax.vmap(Affine))(jnp.stack([w, w]), jnp.stack([b, b]))), ("tree_map", lambda: jax.tree_util.tree_map(Affine, [w], [b]))]
        for t, thunk in runs:
            v = attempt(thunk)
            rec.count("transform." + t.split("-")[0])
            if v != eager:
                rec.violation("trace-vs-eager", dict(case, transform=t), f"decorated dataclass handed to {t} with w: {o}x{i}, b: {o2}: {v}, eager construction {eager}", mechanism=f"dataclass-{t}-{v.split(':')[0]}-eager-{eager}")


def run_shard(rec, seed, shard, tier):
    import jax

    warnings.filterwarnings("ignore")
    install_spy()
    for k in range(CASES[tier]):
        key = f"{seed}/C17/{shard['i']}/{k}"
        run_case(rec, random.Random(key), rngkey=key)
        if k % 4 == 0:
            run_question_case(rec, random.Random(key + "/q"), key + "/q")
        if k % 4 == 1:
            run_dict_case(rec, random.Random(key + "/d"), key + "/d")
        if k % 4 == 2:
            run_mixed_case(rec, random.Random(key + "/m"), key + "/m")
        if k % 4 == 3:
            run_weak_case(rec, random.Random(key + "/w"), key + "/w")
            run_dataclass_case(rec, random.Random(key + "/dc"), key + "/dc")
            if k % 8 == 3:
                run_buffer_and_key_case(rec, random.Random(key + "/bk"), key + "/bk")
            if k % 8 == 7:
                run_static_attribute_case(rec, random.Random(key + "/sa"), key + "/sa")
    r = random.Random(f"{seed}/C17/{shard['i']}/0")
    s = GS.gen_signature(r, max_params=3, p_ret=0.8)
    rec.sample({"sig": s, "transforms": TRANSFORMS})


def replay(rec, case):
    warnings.filterwarnings("ignore")
    install_spy()
    if case.get("buffer_case"):
        run_buffer_and_key_case(rec, random.Random(case["rngkey"]), case["rngkey"])
    elif case.get("dataclass_case"):
        run_dataclass_case(rec, random.Random(case["rngkey"]), case["rngkey"])
    elif case.get("weak_case"):
        run_weak_case(rec, random.Random(case["rngkey"]), case["rngkey"])
    elif case.get("mixed_case"):
        run_mixed_case(rec, random.Random(case["rngkey"]), case["rngkey"])
    elif case.get("dict_case"):
        run_dict_case(rec, random.Random(case["rngkey"]), case["rngkey"])
    elif case.get("question_case"):
        run_question_case(rec, random.Random(case["rngkey"]), case["rngkey"])
    else:
        run_case(rec, random.Random(case["rngkey"]), rngkey=case["rngkey"])

"""C13 — type-check errors are raised iff violated and describe the failure truthfully."""

from __future__ import annotations

import inspect
import random
import re
import typing
import warnings

import numpy as np

from .. import real
from ..gen import annotations as G
from ..gen import signatures as GS
from ..gen import trees as GT
from ..model import dims as M
from ..model import sat as SAT
from ..model import trees as TM
from ..monitor import checktrace

LEVEL = "exploration"
TECHNIQUE = "runtime monitoring: check-trace monitor replays the passing top-level checks of each failing call on the reference model and compares with the message's 'current values'; satisfiability oracle decides stage and innocence of the blamed parameter; misuse annotations on leafless trees in parameter and return position; stacked decoration layers; ill-typed calls made while an older AnnotationError / TypeCheckError is being handled or propagates"
LEVEL_TEXT = (
    "Held on every generated ill-typed call explored (failure position uniform over parameters and return; plain, "
    "Union and PyTree annotations; both typecheckers; both values of the remove-stack switch). The listed bindings are "
    "compared with the model state obtained by replaying exactly the checks that passed, as observed by the trace monitor."
)
LEVEL_NOTE = "Trusts the dims/sat models and the trace monitor attached to the annotation metaclasses (falls back to the model's own greedy walk when it cannot attach)."
RULE = (
    "one case = (signature with plain/Union/PyTree array annotations, ill-typed argument tuple, typechecker, switch value); "
    "non-trivial = an earlier check of the same call was rolled back (union alternative) or the failing check bound >=1 "
    "axis before mismatching (the only cases that tell a stale snapshot from live bindings); distinct by (signature, shapes, checker, switch)."
)
ASSUMPTIONS = ["message layout: stage sentence, optional \"parameter '<name>'\" sentence, trailing print_bindings-style block"]
CASES = {"quick": 900, "thorough": 12000}
NSHARDS = 16


def shards(tier):
    return [{"i": i} for i in range(NSHARDS)]


def required_counters(tier):
    return {
        "ill_typed_calls": 1000,
        "stage.parameters": 300,
        "stage.return": 200,
        "earlier_check_rolled_back": 100,
        "failing_check_bound_before_mismatch": 100,
        "bindings_compared": 1000,
        "innocence_checked": 200,
        "annot_cases": 50, "tree_later_leaf_failed_after_binding": 30,
        "cause_present_checked": 300,
        "cause_absent_checked": 300,
        "misuse.calls": 300, "stacked.calls": 50, "foreign_checker.calls": 6, "call_made.while-handling-an-AnnotationError": 200, "call_made.in-finally-while-an-AnnotationError-propagates": 200,
    }


def F(spec):
    import jaxtyping

    return jaxtyping.Float[np.ndarray, spec]


def gen_case(rng):
    """-> dict(params=[{name, kind, ...}], ret=..., values)"""
    sig = GS.gen_signature(rng, p_ret=0.75)
    shapes, retshape = GS.gen_values(rng, sig, p_perturb=0.85)
    params = []
    for (name, spec), sh in zip(sig["params"], shapes):
        r = rng.random()
        if r < 0.2:
            # Union whose first alternative binds an axis and then fails: "<new> <new> 77"
            alt1 = "p q 77" if rng.random() < 0.5 else "p 77 *v"
            if rng.random() < 0.3:
                params.append({"name": name, "kind": "union", "specs": [spec, alt1], "shape": sh})
            else:
                params.append({"name": name, "kind": "union", "specs": [alt1, spec], "shape": sh})
        elif r < 0.38 and not any(t.kind == "symbolic" for t in M.parse(spec)):
            # leaves are drawn one by one: later leaves may widen a '*#v' binding or rebind nothing, and the
            # LAST leaf is sometimes broken, so that earlier leaves of the same (failing) tree had bound axes
            nleaves = rng.choice((1, 2, 2, 3))
            toks = M.parse(spec)
            s_, v_ = {}, {}
            leaves = []
            for li in range(nleaves):
                shp = list(sh) if li == 0 else list(G.gen_shape_for(rng, toks, s_, v_, {}, p_perturb=0.0, max_rank=4))
                vd, why, s2, v2 = M.match(toks, shp, s_, v_, {})
                if vd == "ok":
                    s_, v_ = s2, v2
                leaves.append(shp)
            if nleaves > 1 and rng.random() < 0.5:
                last = leaves[-1]
                if last:
                    k = rng.randrange(len(last))
                    last[k] = last[k] + rng.choice((1, 2, 5))
                else:
                    leaves[-1] = [7]
            params.append({"name": name, "kind": "tree", "spec": spec, "struct": rng.choice((None, None, "T", "T")), "shape": sh, "leaves": leaves, "form": rng.choice(("list", "dict", "tuple", "nested"))})
        else:
            params.append({"name": name, "kind": "arr", "spec": spec, "shape": sh})
    case = {"params": params, "ret": sig["ret"], "retshape": retshape}
    if rng.random() < 0.08:
        # misuse of the annotation language: unbound symbolic name / '?' outside a PyTree
        bad = rng.choice(("zz+1", "?a", "2*zz"))
        arrs = [p for p in params if p["kind"] == "arr"]
        if case["ret"] is not None and (not arrs or rng.random() < 0.4):
            case["ret"] = (case["ret"] + " " + bad).strip()
            case["retshape"] = list(case["retshape"]) + [3]
        elif arrs:
            p = rng.choice(arrs)
            p["spec"] = (p["spec"] + " " + bad).strip()
            p["shape"] = list(p["shape"]) + [3]
    return case


def tree_value(p):
    arrs = [real.np_array(sh) for sh in p["leaves"]]
    f = p["form"]
    if f == "list":
        return list(arrs)
    if f == "dict":
        return {f"k{i}": a for i, a in enumerate(arrs)}  # sorted-key order == leaf order
    if f == "tuple":
        return tuple(arrs)
    return ([arrs[0], None], {"z": tuple(arrs[1:])})


def build(case):
    import jaxtyping

    anns, vals = {}, {}
    for p in case["params"]:
        if p["kind"] == "arr":
            anns[p["name"]] = F(p["spec"])
            vals[p["name"]] = real.np_array(p["shape"])
        elif p["kind"] == "union":
            anns[p["name"]] = typing.Union[F(p["specs"][0]), F(p["specs"][1])]
            vals[p["name"]] = real.np_array(p["shape"])
        else:
            L = F(p["spec"])
            anns[p["name"]] = jaxtyping.PyTree[L] if p["struct"] is None else jaxtyping.PyTree[L, p["struct"]]
            vals[p["name"]] = tree_value(p)
    return anns, vals


def model_walk(case, subset=None):
    """greedy walk in declaration order. -> (first failing index or None, verdict, bindings, trees,
    flags) where index len(params) means the return value."""
    s, v, trees = {}, {}, {}
    flags = {"rolled_back_earlier": False, "bound_before_mismatch": False}
    items = [(i, p) for i, p in enumerate(case["params"]) if subset is None or i in subset]
    for i, p in items:
        if p["kind"] == "arr":
            part = []
            vd, why, s2, v2 = M.match(M.parse(p["spec"]), p["shape"], s, v, {}, partial=part)
            if vd != "ok" and (set(part[0][0]) - set(s) or set(part[0][1]) - set(v)):
                flags["bound_before_mismatch"] = True
        elif p["kind"] == "union":
            vd = "no"
            for k, sp in enumerate(p["specs"]):
                part = []
                vd, why, s2, v2 = M.match(M.parse(sp), p["shape"], s, v, {}, partial=part)
                if vd == "ok":
                    break
                if vd != "no":
                    break
                if set(part[0][0]) - set(s) or set(part[0][1]) - set(v):
                    if k == 0:
                        flags["rolled_back_pending"] = True
            if vd == "ok" and flags.pop("rolled_back_pending", False):
                flags["rolled_back_earlier"] = True
        else:
            val = tree_value(p)
            isl = lambda y: isinstance(y, np.ndarray)
            s2, v2 = s, v
            vd = "ok"
            for li, leaf in enumerate(TM.leaves(val, isl)):
                vd, why, s2, v2 = M.match(M.parse(p["spec"]), leaf.shape, s2, v2, {})
                if vd != "ok":
                    if li > 0 and (s2 != s or v2 != v):
                        flags["bound_before_mismatch"] = True
                        flags["tree_later_leaf_failed"] = True
                    break
            if vd == "ok" and p["struct"]:
                st = TM.struct(val, isl)
                if p["struct"] in trees and trees[p["struct"]] != st:
                    vd = "no"
                elif vd == "ok":
                    trees = dict(trees, **{p["struct"]: st})
        if vd != "ok":
            return i, vd, s, v, trees, flags
        s, v = s2, v2
    if case["ret"] is not None and subset is None:
        part = []
        vd, why, s2, v2 = M.match(M.parse(case["ret"]), case["retshape"], s, v, {}, partial=part)
        if vd != "ok":
            if set(part[0][0]) - set(s) or set(part[0][1]) - set(v):
                flags["bound_before_mismatch"] = True
            return len(case["params"]), vd, s, v, trees, flags
        s, v = s2, v2
    return None, "ok", s, v, trees, flags


def make_fn(case, anns, checker):
    from jaxtyping import jaxtyped

    names = [p["name"] for p in case["params"]]
    ns = {f"T_{n}": anns[n] for n in names}
    ns["__name__"] = "jtv_generated"
    ns["RET"] = real.np_array(case["retshape"]) if case["ret"] is not None else None
    retstr = ""
    if case["ret"] is not None:
        ns["T_ret"] = F(case["ret"])
        retstr = " -> T_ret"
    real.exec_src(f"def target_fn({', '.join(f'{n}: T_{n}' for n in names)}){retstr}:\n    return RET\n", ns)
    return jaxtyped(typechecker=checker)(ns["target_fn"])


def replay_trace(log, specof):
    """model bindings after replaying, in observed order, exactly the top-level checks that passed"""
    s, v, trees = {}, {}, set()
    for ev in log:
        if ev["depth"] != 0 or ev["result"] is not True:
            continue
        if ev["kind"] == "array":
            spec = specof.get(id(ev["ann"]))
            if spec is None:
                return None
            vd, why, s, v = M.match(M.parse(spec), ev["obj"].shape, s, v, {})
            if vd != "ok":
                return None
        else:
            info = specof.get(id(ev["ann"]))
            if info is None:
                return None
            spec, struct = info
            for leaf in TM.leaves(ev["obj"], lambda y: isinstance(y, np.ndarray)):
                vd, why, s, v = M.match(M.parse(spec), leaf.shape, s, v, {})
                if vd != "ok":
                    return None
            if struct:
                trees.add(struct)
    return s, v, trees


MOMENTS = ("plainly", "plainly", "while-handling-an-AnnotationError", "in-finally-while-an-AnnotationError-propagates", "while-handling-an-error-caused-by-an-AnnotationError", "while-handling-a-TypeCheckError")


class _Marker(Exception):
    pass


def call_at_moment(moment, thunk):
    """what the program happens to be doing when it makes the call: nothing, or handling some older, unrelated error
    (which then sits in the new exception's __context__ chain) - the outcome of the call is the same"""
    from jaxtyping import AnnotationError, TypeCheckError

    if moment == "plainly":
        return thunk()
    if moment == "while-handling-an-AnnotationError":
        try:
            raise AnnotationError("an older, unrelated misuse that the program is dealing with")
        except AnnotationError:
            return thunk()
    if moment == "while-handling-a-TypeCheckError":
        try:
            raise TypeCheckError("an older, unrelated violation that the program is dealing with")
        except TypeCheckError:
            return thunk()
    if moment == "while-handling-an-error-caused-by-an-AnnotationError":
        try:
            try:
                raise AnnotationError("older misuse")
            except AnnotationError as e:
                raise ValueError("wrapped") from e
        except ValueError:
            return thunk()
    if moment == "in-finally-while-an-AnnotationError-propagates":
        box = []
        try:
            try:
                raise AnnotationError("older misuse, still propagating")
            finally:
                try:
                    box.append(("ok", thunk()))
                except BaseException as e:  # noqa
                    box.append(("raise", e))
        except AnnotationError:
            pass
        kind, val = box[0]
        if kind == "raise":
            raise val
        return val
    raise AssertionError(moment)


def run_case(rec, rng, case=None, rngkey=None):
    import beartype
    import typeguard

    import jaxtyping
    from jaxtyping import AnnotationError, TypeCheckError, config

    if case is None:
        case = gen_case(rng)
    case["rngkey"] = rngkey
    anns, vals = build(case)
    specof = {}
    for p in case["params"]:
        a = anns[p["name"]]
        if p["kind"] == "arr":
            specof[id(a)] = p["spec"]
        elif p["kind"] == "union":
            for alt, sp in zip(typing.get_args(a), p["specs"]):
                specof[id(alt)] = sp
        else:
            specof[id(a)] = (p["spec"], p["struct"])
    idx, vd, ms, mv, mtrees, flags = model_walk(case)
    if vd == "open":
        rec.open_corner("symbolic-raises-other")
        return
    names = [p["name"] for p in case["params"]]
    plain = all(p["kind"] == "arr" for p in case["params"])
    for cname, checker in (("typeguard", typeguard.typechecked), ("beartype", beartype.beartype)):
        for remove_stack in (False, True):
            fn = make_fn(case, anns, checker)
            # the return annotation object is created inside make_fn; find it for the trace
            config.update("jaxtyping_remove_typechecker_stack", remove_stack)
            attached = checktrace.attach()
            log = checktrace.start() if attached else None
            moment = rng.choice(MOMENTS)
            rec.count("call_made." + moment)
            try:
                call_at_moment(moment, lambda: fn(*[vals[n] for n in names]))
                got, exc = "ok", None
            except BaseException as e:  # noqa
                got, exc = "raise", e
            finally:
                if attached:
                    log = checktrace.stop()
                config.update("jaxtyping_remove_typechecker_stack", False)
            key = (case["params"], case["ret"], case["retshape"], cname, remove_stack)
            nontriv = flags["rolled_back_earlier"] or flags["bound_before_mismatch"]
            rec.case(key, nontrivial=nontriv and vd != "ok")
            desc = dict(case, checker=cname, remove_stack=remove_stack)
            if vd == "ok":
                rec.count("well_typed_calls")
                if got != "ok":
                    rec.violation("raised-on-well-typed", desc, f"model accepts, real raised {type(exc).__name__}: {str(exc)[:300]}", mechanism="rejects-well-typed")
                continue
            if vd == "annot":
                rec.count("annot_cases")
                if not isinstance(exc, AnnotationError):
                    rec.violation("annotation-misuse", desc, f"expected AnnotationError, got {type(exc).__name__ if exc else 'no error'}: {str(exc)[:200]}", mechanism="annot-" + (type(exc).__name__ if exc else "swallowed"))
                continue
            rec.count("ill_typed_calls")
            if flags["rolled_back_earlier"]:
                rec.count("earlier_check_rolled_back")
            if flags["bound_before_mismatch"]:
                rec.count("failing_check_bound_before_mismatch")
            if flags.get("tree_later_leaf_failed"):
                rec.count("tree_later_leaf_failed_after_binding")
            if not isinstance(exc, TypeCheckError) or not isinstance(exc, TypeError):
                rec.violation("error-type", desc, f"ill-typed call: expected jaxtyping.TypeCheckError, got {type(exc).__name__ if exc else 'no error'}", mechanism="wrong-error-type")
                continue
            msg = str(exc)
            # (1) stage
            m = re.match(r"Type-check error whilst checking the (parameters|return value) of (\S+)\.\n", msg)
            if not m:
                rec.violation("message-shape", desc, f"stage sentence missing: {msg[:200]!r}", mechanism="no-stage-sentence")
                continue
            stage = m.group(1)
            exp_stage = "return value" if idx == len(names) else "parameters"
            rec.count("stage." + ("return" if exp_stage == "return value" else "parameters"))
            if stage != exp_stage:
                rec.violation("stage", desc, f"message says {stage!r}, the {exp_stage} failed (first failing index {idx})", mechanism=f"stage-says-{stage.split()[0]}")
            # (2) function name
            if "target_fn" not in m.group(2):
                rec.violation("function-name", desc, f"function not named: {m.group(2)!r}", mechanism="function-name-missing")
            # (3) blamed parameter is not innocent
            bm = re.search(r"The problem arose whilst typechecking parameter '([^']+)'", msg)
            if exp_stage == "parameters":
                if bm is None:
                    rec.count("no_parameter_blamed")
                    if plain:
                        rec.violation("blame", desc, "parameters failed but no parameter is named", mechanism="no-parameter-named")
                elif bm.group(1) not in names:
                    rec.violation("blame", desc, f"blamed parameter {bm.group(1)!r} does not exist", mechanism="blamed-unknown")
                elif plain:
                    rec.count("innocence_checked")
                    b = names.index(bm.group(1))
                    if innocent(case, b):
                        rec.violation("blame", desc, f"blamed parameter {bm.group(1)!r} is innocent: every satisfiable subset of the others stays satisfiable with it", mechanism="blamed-innocent")
                else:
                    rec.count("blame_not_judged_nonplain")
            # (4) current values
            tail = ""
            for hdr in (real.AXIS_HDR, real.TREE_HDR):
                j = msg.find(hdr)
                if j >= 0:
                    tail = msg[j:]
                    break
            rs, rv, rt = real.parse_transcript(tail)
            exp = None
            if log is not None:
                # the return annotation: single array class not in specof -> add by dim string we know
                for ev in log:
                    if ev["kind"] == "array" and id(ev["ann"]) not in specof and case["ret"] is not None:
                        specof[id(ev["ann"])] = case["ret"]
                exp = replay_trace(log, specof)
                if exp is not None:
                    rec.count("expected_from_trace")
            if exp is None:
                exp = (ms, mv, set(mtrees))
                rec.count("expected_from_model_walk")
            es, ev_ = M.transcript(exp[0], exp[1])
            rec.count("bindings_compared")
            if rs != es or rv != ev_ or set(rt) != set(exp[2]):
                missing = sorted((set(es) - set(rs)) | (set(ev_) - set(rv)))
                extra = sorted((set(rs) - set(es)) | (set(rv) - set(ev_)))
                extra += sorted(set(rt) - set(exp[2]))
                missing += sorted(set(exp[2]) - set(rt))
                if extra and not missing:
                    mech = "message-lists-bindings-of-failed-check"
                elif missing:
                    mech = "message-misses-bindings-in-force"
                else:
                    mech = "message-binding-values-differ"
                rec.violation(
                    "current-values",
                    desc,
                    f"message lists {rs},{rv},{sorted(rt)}; bindings in force (replay of passing checks) {es},{ev_},{sorted(exp[2])}",
                    mechanism=mech,
                )
            # (5) __cause__ iff switch off
            if remove_stack:
                rec.count("cause_absent_checked")
                if exc.__cause__ is not None:
                    rec.violation("cause", desc, "remove_typechecker_stack on but __cause__ present", mechanism="cause-present")
            else:
                rec.count("cause_present_checked")
                if exc.__cause__ is None:
                    rec.violation("cause", desc, "remove_typechecker_stack off but __cause__ missing", mechanism="cause-missing")


def innocent(case, b):
    """b belongs to no minimal conflict (order-free satisfiability over all subsets)"""
    n = len(case["params"])
    pairs = [(M.parse(p["spec"]), tuple(p["shape"])) for p in case["params"]]
    others = [i for i in range(n) if i != b]
    for mask in range(1 << len(others)):
        sub = [others[k] for k in range(len(others)) if mask >> k & 1]
        r1 = SAT.satisfiable([pairs[i] for i in sub])
        if r1 != "sat":
            continue
        r2 = SAT.satisfiable([pairs[i] for i in sub + [b]])
        if r2 == "unsat":
            return False
        if r2 == "open":
            return False  # cannot decide: do not accuse
    return True


def run_misuse(rec, rng):
    """annotations that are misuse whatever the value is (a bare dtype category as a leaf type, a composite
    structure string over names nothing has bound): AnnotationError for every value, trees WITHOUT leaves included,
    as parameter and as return annotation, under both typecheckers and for plain isinstance"""
    import beartype
    import typeguard

    import jaxtyping
    from jaxtyping import AnnotationError, PyTree, jaxtyped

    anns = {
        "PyTree[Float]": lambda: PyTree[jaxtyping.Float],
        "PyTree[PyTree[int, 'S T']]": lambda: PyTree[PyTree[int, "S T"]],
        "PyTree[Shaped, 'T']": lambda: PyTree[jaxtyping.Shaped, "T"],
        "PyTree[int, 'S T'] (nothing bound)": lambda: PyTree[int, "S T"],
    }
    vals = {"[]": [], "()": (), "{}": {}, "{'w': None, 'b': None}": {"w": None, "b": None}, "[[], {}]": [[], {}], "[array]": [real.np_array((2,))], "array": real.np_array((2,)), "[1]": [1], "(None, [])": (None, [])}
    for an, mk in anns.items():
        for vn, v in vals.items():
            for cname, tc in (("typeguard", typeguard.typechecked), ("beartype", beartype.beartype)):
                for pos in ("parameter", "return"):
                    a = mk()
                    ns = {"T_a": a, "jaxtyped": jaxtyped, "tc": tc}
                    real.exec_src("@jaxtyped(typechecker=tc)\ndef f(x: T_a):\n    return 0\n" if pos == "parameter" else "@jaxtyped(typechecker=tc)\ndef f(x) -> T_a:\n    return x\n", ns)
                    try:
                        ns["f"](v)
                        got = "no error"
                    except BaseException as e:  # noqa
                        got = type(e).__name__ if not isinstance(e, AnnotationError) else "AnnotationError"
                    rec.count("misuse.calls")
                    rec.case(("misuse", an, vn, cname, pos), True)
                    if got != "AnnotationError":
                        rec.violation("annotation-misuse", {"annotation": an, "value": vn, "checker": cname, "position": pos}, f"{an} as {pos} annotation, value {vn}, {cname}: expected AnnotationError, got {got}", mechanism="misuse-" + ("swallowed" if got == "no error" else got) + ("-leafless-tree" if "array" not in vn and "1" not in vn else ""))
                        return
            try:
                isinstance(v, mk())
                got = "no error"
            except BaseException as e:  # noqa
                got = type(e).__name__ if not isinstance(e, AnnotationError) else "AnnotationError"
            rec.count("misuse.isinstance")
            if got != "AnnotationError":
                rec.violation("annotation-misuse", {"annotation": an, "value": vn, "checker": "isinstance"}, f"isinstance({vn}, {an}): expected AnnotationError, got {got}", mechanism="misuse-isinstance-" + got.replace(" ", "-"))
                return


def run_stacked(rec, rng):
    """'raised iff violated' when jaxtyped layers are stacked: a layer without typechecker (typechecker=None, or the
    wrapper the import hook puts on with typechecker None) below or above a layer that has one, two different
    typecheckers, the old double-decorator spelling under a new-style layer"""
    import beartype
    import typeguard

    from jaxtyping import Float, TypeCheckError, jaxtyped

    N = np.ndarray
    tg, bt = typeguard.typechecked, beartype.beartype

    LOG = []

    def base():
        # (generated source: this module's `from __future__ import annotations` must not stringify the annotations)
        ns = {"Float": Float, "N": N, "LOG": LOG}
        real.exec_src('def f(x: Float[N, "a"], y: Float[N, "a"]) -> Float[N, "a"]:\n    LOG.append("body")\n    return x\n', ns)
        return ns["f"]

    stacks = {
        "tc over None": lambda: jaxtyped(typechecker=tg)(jaxtyped(typechecker=None)(base())),
        "beartype over None": lambda: jaxtyped(typechecker=bt)(jaxtyped(typechecker=None)(base())),
        "None over tc": lambda: jaxtyped(typechecker=None)(jaxtyped(typechecker=tg)(base())),
        "typeguard over beartype": lambda: jaxtyped(typechecker=tg)(jaxtyped(typechecker=bt)(base())),
        "beartype over typeguard": lambda: jaxtyped(typechecker=bt)(jaxtyped(typechecker=tg)(base())),
        "tc over old-style": lambda: jaxtyped(typechecker=tg)(jaxtyped(tg(base()))),
        "old-style over None": lambda: jaxtyped(tg(jaxtyped(typechecker=None)(base()))),
        "tc over tc over None": lambda: jaxtyped(typechecker=tg)(jaxtyped(typechecker=tg)(jaxtyped(typechecker=None)(base()))),
    }
    for name, mk in stacks.items():
        f = mk()
        for iname, (x, y) in {"ill": (real.np_array((2,)), real.np_array((3,))), "ill-dtype": (real.np_array((2,)), real.np_array((2,), "int32")), "well": (real.np_array((2,)), real.np_array((2,)))}.items():
            del LOG[:]
            try:
                f(x, y)
                got = "ran"
            except BaseException as e:  # noqa
                got = "TypeCheckError" if isinstance(e, TypeCheckError) else type(e).__name__
            rec.count("stacked.calls")
            rec.case(("stacked", name, iname), True)
            want = "ran" if iname == "well" else "TypeCheckError"
            if name.startswith("old-style") and got == "TypeError" and iname != "well":
                got = "TypeCheckError"  # the old spelling surfaces the typechecker's own TypeError: outside this property's wording
            if got != want or (iname != "well" and LOG) or (iname == "well" and LOG != ["body"]):
                rec.violation("raised-iff-violated", {"stack": name, "input": iname}, f"stacked decoration {name!r}, {iname}-typed call: {got}, body ran {len(LOG)}x (expected {want})", mechanism="stacked-" + name.replace(" ", "-") + "-" + got)
                return


def run_foreign_checkers(rec):
    """'compatible with all runtime type checkers': a typechecker that reports a violation with an exception class of
    its own (neither TypeError nor beartype's / typeguard's usual one) - a hand-written decorator, beartype configured
    with `violation_type=` - still ends in jaxtyping.TypeCheckError naming the function"""
    import functools

    import beartype

    from jaxtyping import Float, TypeCheckError, jaxtyped

    class OwnViolation(Exception):
        pass

    class OwnLookup(LookupError):
        pass

    def handwritten(fn):
        sig = inspect.signature(fn)

        @functools.wraps(fn)
        def w(*a, **k):
            b = sig.bind(*a, **k)
            for n, v in b.arguments.items():
                ann = sig.parameters[n].annotation
                if ann is not inspect.Parameter.empty and ann is not typing.Any and isinstance(ann, type) and not isinstance(v, ann):
                    raise OwnViolation(f"{n} is not a {ann}")
            return fn(*a, **k)

        return w

    checkers = {"hand-written decorator raising its own exception class": handwritten}
    try:
        from beartype import BeartypeConf

        checkers["beartype(conf=BeartypeConf(violation_type=RuntimeError))"] = beartype.beartype(conf=BeartypeConf(violation_type=RuntimeError))
        checkers["beartype(conf=BeartypeConf(violation_type=OwnLookup))"] = beartype.beartype(conf=BeartypeConf(violation_type=OwnLookup))
    except Exception:  # noqa - older beartype without violation_type
        pass
    for cname, tc in checkers.items():
        LOG = []
        ns = {"Float": Float, "N": np.ndarray, "LOG": LOG}
        real.exec_src('def named_fn(x: Float[N, "a"], y: Float[N, "a"]) -> Float[N, "a"]:\n    LOG.append("body")\n    return x\n', ns)
        try:
            f = jaxtyped(typechecker=tc)(ns["named_fn"])
        except Exception as e:  # noqa
            rec.violation("foreign-checker", {"checker": cname}, f"decorating with {cname} raised {type(e).__name__}: {e}", mechanism="foreign-checker-decoration-raises")
            continue
        for iname, (x, y) in {"ill-size": (real.np_array((2,)), real.np_array((3,))), "ill-dtype": (real.np_array((2,)), real.np_array((2,), "int32")), "well": (real.np_array((2,)), real.np_array((2,)))}.items():
            del LOG[:]
            try:
                f(x, y)
                got, msg = "ran", ""
            except BaseException as e:  # noqa
                got, msg = ("TypeCheckError" if isinstance(e, TypeCheckError) else type(e).__name__), str(e)
            rec.count("foreign_checker.calls")
            rec.case(("foreign-checker", cname, iname), True)
            want = "ran" if iname == "well" else "TypeCheckError"
            if got != want or (iname != "well" and (LOG or "named_fn" not in msg)):
                rec.violation("foreign-checker", {"checker": cname, "input": iname}, f"{cname}, {iname} call: {got} (body ran {len(LOG)}x, function named in message: {'named_fn' in msg}); expected {want}", mechanism="foreign-exception-class-" + got)
                break


def run_shard(rec, seed, shard, tier):
    warnings.filterwarnings("ignore")
    if shard.get("i", 1) % 2 == 1:
        real.hostile_prelude(rec)  # a past: nothing the check decides may depend on it
        real.toplevel_probes(rec, None, "after the hostile prelude")
    GT.ensure_registered()
    if shard["i"] % 4 == 0:
        run_foreign_checkers(rec)
        run_misuse(rec, random.Random(f"{seed}/C13/{shard['i']}/misuse"))
        run_stacked(rec, random.Random(f"{seed}/C13/{shard['i']}/stacked"))
    for k in range(CASES[tier]):
        key = f"{seed}/C13/{shard['i']}/{k}"
        run_case(rec, random.Random(key), rngkey=key)
    rec.info["trace_monitor_attached"] = checktrace.attached
    rec.sample(gen_case(random.Random(f"{seed}/C13/{shard['i']}/0")))


def replay(rec, case):
    warnings.filterwarnings("ignore")
    c = {k: case[k] for k in ("params", "ret", "retshape")}
    run_case(rec, random.Random(0), case=c, rngkey=case.get("rngkey"))

"""Reference model of the documented dim-string language (docs/api/array.md).

Written from the documentation, not from jaxtyping's parser. Never imports jaxtyping.

parse(spec)      -> list[Tok]            or raises DimValueError (the documented illegal forms)
match(toks, shape, B, args) -> ("ok", B') | ("no", why) | ("annot", why) | ("open", why)

Bindings B = (single: dict name->int, variadic: dict name->(was_broadcastable, shape)).
`treepath` (the '?' modifier) is handled by the caller passing `label`: the string that is
prepended to the name, or None when '?' may not be used here.
"""

from __future__ import annotations

from dataclasses import dataclass
from typing import Optional


class DimValueError(Exception):
    def __init__(self, form):
        super().__init__(form)
        self.form = form


@dataclass(frozen=True)
class Tok:
    kind: str  # fixed | named | namedvar | anon | anonvar | symbolic
    name: Optional[str] = None  # axis name / expression text
    size: Optional[int] = None
    bcast: bool = False
    tree: bool = False  # '?' present


MODS = "#*_?"


def parse_token(tok: str) -> Tok:
    if "," in tok and "(" not in tok:
        raise DimValueError("comma")
    if tok.endswith("#"):
        raise DimValueError("trailing#")
    if "..." in tok:
        if tok != "...":
            raise DimValueError("ellipsis-with-more")
        return Tok("anonvar")
    seen = set()
    rest = tok
    while rest:
        c = rest[0]
        if c in MODS:
            if c in seen:
                raise DimValueError("repeat" + c)
            seen.add(c)
            rest = rest[1:]
        elif rest.count("=") == 1:
            rest = rest.split("=")[1]
        else:
            break
    b, v, a, t = "#" in seen, "*" in seen, "_" in seen, "?" in seen
    if rest == "" or rest.isidentifier():
        if a:
            if b:
                raise DimValueError("anon+bcast")
            return Tok("anonvar" if v else "anon")
        return Tok("namedvar" if v else "named", name=rest, bcast=b, tree=t)
    try:
        n = int(rest)
    except ValueError:
        n = None
    if n is not None:
        if v:
            raise DimValueError("fixed+variadic")
        if a:
            raise DimValueError("fixed+anon")
        if t:
            raise DimValueError("fixed+tree")
        return Tok("fixed", size=n, bcast=b)
    if a:
        raise DimValueError("symbolic+anon")
    if v:
        raise DimValueError("symbolic+variadic")
    if t:
        raise DimValueError("symbolic+tree")
    return Tok("symbolic", name=rest, bcast=b)


def parse(spec) -> list:
    if not isinstance(spec, str):
        raise DimValueError("nonstring")
    toks = [parse_token(t) for t in spec.split()]
    if sum(1 for t in toks if t.kind in ("namedvar", "anonvar")) > 1:
        raise DimValueError("two-variadics")
    return toks


def is_variadic(t):
    return t.kind in ("namedvar", "anonvar")


def broadcast_shapes(a, b):
    """numpy broadcasting of two shapes or None."""
    out = []
    la, lb = len(a), len(b)
    for i in range(1, max(la, lb) + 1):
        x = a[-i] if i <= la else 1
        y = b[-i] if i <= lb else 1
        if x == y or y == 1:
            out.append(x)
        elif x == 1:
            out.append(y)
        else:
            return None
    return tuple(reversed(out))


class _Open(Exception):
    pass


class _Annot(Exception):
    pass


def _eval_symbolic(expr, single, args):
    """Documented two-stage evaluation: f-string over the call's arguments, then
    expression over the bound sizes. NameError => AnnotationError. Anything else the
    expression raises is not constrained by the property ('open')."""
    try:
        text = eval(f"f'{expr}'", dict(args))
        val = eval(text, dict(single))
    except NameError as e:
        raise _Annot(f"unbound name in symbolic axis {expr!r}: {e}")
    except Exception as e:  # noqa
        raise _Open(f"symbolic axis {expr!r} raised {type(e).__name__}")
    return val


def _axes(toks, sizes, single, args, label, deferred):
    """deferred is None (strict, left to right) or a list collecting axes whose
    evaluation raised AnnotationError, to be retried after everything else (lenient)."""
    for t, s in zip(toks, sizes):
        if t.kind == "anon":
            continue
        if t.bcast and s == 1:
            continue
        if t.kind == "fixed":
            if t.size != s:
                return f"fixed {t.size} != {s}"
        elif t.kind == "symbolic":
            try:
                val = _eval_symbolic(t.name, single, args)
            except _Annot:
                if deferred is None:
                    raise
                deferred.append((t, s))
                continue
            if val != s:
                return f"symbolic {t.name}={val!r} != {s}"
        else:
            name = t.name
            if t.tree:
                if label is None:
                    if deferred is None:
                        raise _Annot("'?' outside a structured PyTree")
                    deferred.append((None, None))
                    continue
                name = label + name
            if name in single:
                if single[name] != s:
                    return f"{name}={single[name]} != {s}"
            else:
                single[name] = s
    return ""


def match(toks, shape, single, variadic, args=None, label=None, lenient=False, partial=None):
    """Sequential semantics. Returns (verdict, why, single', variadic').
    verdict in ok|no|annot|open. On anything but ok the returned bindings are the input
    bindings (a failed or raising check binds nothing).

    lenient=True is the *other* defensible reading of the open corner "an axis whose
    evaluation raises AnnotationError while another axis definitely mismatches / while
    the name it needs is bound later in the same annotation": raising axes are retried
    after all other axes have been processed."""
    args = args or {}
    s1, v1 = dict(single), dict(variadic)
    shape = tuple(shape)
    deferred = [] if lenient else None
    if partial is not None:
        partial.append((s1, v1))  # the working copies: what was tentatively bound on failure

    def finish():
        if deferred:
            for t, s in deferred:
                if t is None:
                    raise _Annot("'?' outside a structured PyTree")
                val = _eval_symbolic(t.name, s1, args)
                if val != s:
                    return "no", f"symbolic {t.name}={val!r} != {s} (deferred)", single, variadic
        return "ok", "", s1, v1

    try:
        iv = next((i for i, t in enumerate(toks) if is_variadic(t)), None)
        if iv is None:
            if len(shape) != len(toks):
                return "no", "rank", single, variadic
            why = _axes(toks, shape, s1, args, label, deferred)
            if why:
                return "no", why, single, variadic
            return finish()
        nfix = len(toks) - 1
        if len(shape) < nfix:
            return "no", "rank<", single, variadic
        nsuf = len(toks) - iv - 1
        why = _axes(toks[:iv], shape[:iv], s1, args, label, deferred)
        if why:
            return "no", why, single, variadic
        if nsuf:
            why = _axes(toks[iv + 1 :], shape[len(shape) - nsuf :], s1, args, label, deferred)
            if why:
                return "no", why, single, variadic
        vt = toks[iv]
        mid = shape[iv : len(shape) - nsuf]
        if vt.kind == "anonvar":
            return finish()
        name = vt.name
        if vt.tree:
            if label is None:
                if not lenient:
                    raise _Annot("'?' outside a structured PyTree")
                deferred.append((None, None))
                return finish()
            name = label + name
        if name not in v1:
            v1[name] = (vt.bcast, mid)
            return finish()
        pb, pshape = v1[name]
        if not pb and not vt.bcast:
            if mid != pshape:
                return "no", "variadic !=", single, variadic
            return finish()
        bc = broadcast_shapes(mid, pshape)
        if bc is None:
            return "no", "variadic not broadcastable", single, variadic
        if pb and vt.bcast:
            v1[name] = (True, bc)
        elif pb and not vt.bcast:
            if bc != mid:
                return "no", "earlier #-uses do not broadcast to this use", single, variadic
            v1[name] = (False, mid)
        else:  # fixed earlier, this use broadcastable
            if bc != pshape:
                return "no", "does not broadcast to bound shape", single, variadic
        return finish()
    except _Annot as e:
        return "annot", str(e), single, variadic
    except _Open as e:
        return "open", str(e), single, variadic


def transcript(single, variadic, structures=None):
    """What print_bindings() is documented to show, as a comparable structure:
    (dict name->size, dict name->shape). Internal '~~delete~~' names are hidden."""
    s = {k: v for k, v in single.items() if not k.startswith("~~delete~~")}
    v = {k: tuple(sh) for k, (_, sh) in variadic.items() if not k.startswith("~~delete~~")}
    return s, v

"""Dtype oracle: classifies a dtype into the documented hierarchy (docs/api/array.md)
WITHOUT reading jaxtyping's tables: NumPy's abstract scalar hierarchy, ml_dtypes'
finfo/iinfo for the low-precision extension types, jax.dtypes for PRNG keys.

kind_of(dtype) -> 'bool' | 'int' | 'uint' | 'float' | 'complex' | 'key' | 'other'
"""

from __future__ import annotations

import numpy as np

HIER = {
    "Bool": {"bool"},
    "Int": {"int"},
    "UInt": {"uint"},
    "Integer": {"int", "uint"},
    "Float": {"float"},
    "Complex": {"complex"},
    "Inexact": {"float", "complex"},
    "Real": {"float", "int", "uint"},
    "Num": {"float", "int", "uint", "complex"},
    "Key": {"key"},
    "Shaped": None,
}
# precision-specific class -> canonical dtype name it accepts (documented list)
PRECISE = {
    "UInt2": "uint2", "UInt4": "uint4", "UInt8": "uint8", "UInt16": "uint16", "UInt32": "uint32", "UInt64": "uint64",
    "Int2": "int2", "Int4": "int4", "Int8": "int8", "Int16": "int16", "Int32": "int32", "Int64": "int64",
    "Float8e4m3b11fnuz": "float8_e4m3b11fnuz", "Float8e4m3fn": "float8_e4m3fn", "Float8e4m3fnuz": "float8_e4m3fnuz",
    "Float8e5m2": "float8_e5m2", "Float8e5m2fnuz": "float8_e5m2fnuz",
    "BFloat16": "bfloat16", "Float16": "float16", "Float32": "float32", "Float64": "float64",
    "Complex64": "complex64", "Complex128": "complex128",
}
ALL_CATEGORIES = list(HIER) + list(PRECISE)  # 34


def kind_of(dt) -> str:
    try:
        import jax

        if jax.dtypes.issubdtype(dt, jax.dtypes.prng_key):
            return "key"
    except Exception:
        pass
    try:
        d = np.dtype(dt)
    except Exception:
        return "other"
    if d.fields is not None:
        return "other"
    if np.issubdtype(d, np.bool_):
        return "bool"
    if np.issubdtype(d, np.signedinteger):
        return "int"
    if np.issubdtype(d, np.unsignedinteger):
        return "uint"
    if np.issubdtype(d, np.floating):
        return "float"
    if np.issubdtype(d, np.complexfloating):
        return "complex"
    if d.type is not np.void and d.type.__module__.split(".")[0] != "numpy":
        # extension scalar types (ml_dtypes): ask the library that defines them
        import ml_dtypes

        try:
            ml_dtypes.finfo(d)
            return "float"
        except Exception:
            pass
        try:
            ii = ml_dtypes.iinfo(d)
            return "int" if ii.min < 0 else "uint"
        except Exception:
            pass
    return "other"


def canonical_name(dt) -> str:
    """NumPy's canonical name of the dtype ('int64' for longlong on LP64, 'bool' for bool_)."""
    try:
        return np.dtype(dt).name
    except Exception:
        return str(dt)


def expected(category: str, kind: str, name: str) -> bool:
    if category in HIER:
        allowed = HIER[category]
        return True if allowed is None else kind in allowed
    return PRECISE[category] == name

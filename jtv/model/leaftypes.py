"""Leaf-type expressions used by the PyTree checks (C08, C09, C16) as a small AST, with
(a) a builder producing the real Python type and (b) a reference matcher.

L ::= ("int",) | ("str",) | ("any",) | ("none",)
    | ("tuple", [L...])            tuple[L1, L2]
    | ("union", [L...])            typing.Union[...]
    | ("pep604", [L...])           L1 | L2        (types.UnionType; plain classes only)
    | ("optional", L)              typing.Optional[L]
    | ("arr", cat, spec)           cat[np.ndarray, spec]
    | ("arrnode", cat, spec)       cat[NodeArr, spec] - NodeArr is an array-like that is ALSO a PyTree node
    | ("ntclass", [L...])          a typing.NamedTuple CLASS whose fields are annotated L1, L2, ...: a value matches when it
                                   is an instance and every field matches its annotation (bindings shared, as in a tuple)
    | ("typevar", how, [L...])     a TypeVar bound to L1 (how="bound") or constrained to L1, L2 (how="constr"): stands for
                                   its bound / the union of its constraints
    | ("pytree", L)                PyTree[L] (structure-less, nested)
    | ("spytree", L, name, n)      PyTree[L, name] (structured, nested); values are n-tuples of L, so that the
                                   structure bound to `name` is the same wherever it occurs
"""

from __future__ import annotations

import functools
import operator
import typing

import numpy as np

from . import dims as M

class NodeArr(typing.NamedTuple):
    """an array type that jax would happily flatten further (a NamedTuple holding its buffer and a tag, like an
    equinox Module wrapping an array): wherever it matches the leaf type it IS the leaf"""

    data: np.ndarray
    tag: int

    @property
    def shape(self):
        return self.data.shape

    @property
    def dtype(self):
        return self.data.dtype


FLOATS = {"float16", "float32", "float64"}
INTS = {"int8", "int16", "int32", "int64"}
CATS = {"Float": FLOATS, "Int": INTS, "Shaped": None}


_NT_CLASSES = {}


def nt_class(L):
    """one NamedTuple class per description (values have to be instances of the very class in the annotation)"""
    key = repr(L)
    if key not in _NT_CLASSES:
        _NT_CLASSES[key] = typing.NamedTuple(f"NTLeaf{len(_NT_CLASSES)}", [(f"f{i}", build(x)) for i, x in enumerate(L[1])])
    return _NT_CLASSES[key]


def build(L, cache=None):
    """real type for L. Array annotations are created fresh (each subscription is a new class)."""
    import jaxtyping

    k = L[0]
    if k == "int":
        return int
    if k == "str":
        return str
    if k == "any":
        return typing.Any
    if k == "none":
        return type(None)
    if k == "tuple":
        return tuple[tuple(build(x) for x in L[1])]
    if k == "union":
        return typing.Union[tuple(build(x) for x in L[1])]
    if k == "pep604":
        return functools.reduce(operator.or_, [build(x) for x in L[1]])
    if k == "optional":
        return typing.Optional[build(L[1])]
    if k == "arr":
        return getattr(jaxtyping, L[1])[np.ndarray, L[2]]
    if k == "typevar":
        if L[1] == "bound":
            return typing.TypeVar("TLeafB", bound=build(L[2][0]))
        return typing.TypeVar("TLeafC", *[build(x) for x in L[2]])
    if k == "ntclass":
        return nt_class(L)
    if k == "arrnode":
        return getattr(jaxtyping, L[1])[NodeArr, L[2]]
    if k == "arrnest":  # Cat[Shaped[ndarray, inner], outer]: documented to mean Cat[ndarray, "outer inner"]
        return getattr(jaxtyping, L[1])[jaxtyping.Shaped[np.ndarray, L[3]], L[2]]
    if k == "pytree":
        return jaxtyping.PyTree[build(L[1])]
    if k == "spytree":
        return jaxtyping.PyTree[build(L[1]), L[2]]
    raise AssertionError(L)


STRUCT_KEY = "\0struct:"


def structs_only(s):
    """the structure-name bindings of a model axis dict (what steers leaf discovery: a structured PyTree in the
    leaf type whose name is already bound only matches nodes of that structure, also while flattening)"""
    return {k: x for k, x in s.items() if k.startswith(STRUCT_KEY)}


def split_structs(s):
    """-> (axis bindings, {structure name: structure}) of a model axis dict"""
    return {k: x for k, x in s.items() if not k.startswith(STRUCT_KEY)}, {k[len(STRUCT_KEY):]: x for k, x in s.items() if k.startswith(STRUCT_KEY)}


class Annot(Exception):
    pass


class Open(Exception):
    pass


def matches(x, L, s, v, flatten, label=None, nested_struct=False):
    """-> (bool, s', v').  flatten=True: array annotations only test the array type and
    nothing is bound.  Raises Annot for annotation misuse, Open where unconstrained."""
    k = L[0]
    if k == "int":
        return isinstance(x, int), s, v
    if k == "str":
        return isinstance(x, str), s, v
    if k == "any":
        return True, s, v
    if k == "none":
        return x is None, s, v
    if k == "tuple":
        if not isinstance(x, tuple) or len(x) != len(L[1]):
            return False, s, v
        s1, v1 = s, v
        for e, Le in zip(x, L[1]):
            ok, s1, v1 = matches(e, Le, s1, v1, flatten, label)
            if not ok:
                return False, s, v
        return True, s1, v1
    if k == "ntclass":
        if not isinstance(x, nt_class(L)):
            return False, s, v
        s1, v1 = s, v
        for e, Le in zip(x, L[1]):
            ok, s1, v1 = matches(e, Le, s1, v1, flatten, label)
            if not ok:
                return False, s, v
        return True, s1, v1
    if k == "typevar":
        return matches(x, L[2][0] if L[1] == "bound" else ("union", L[2]), s, v, flatten, label)
    if k in ("union", "pep604"):
        for alt in L[1]:
            ok, s1, v1 = matches(x, alt, s, v, flatten, label)
            if ok:
                return True, s1, v1
        return False, s, v
    if k == "optional":
        if x is None:
            return True, s, v
        return matches(x, L[1], s, v, flatten, label)
    if k == "arrnest":
        return matches(x, ("arr", L[1], (L[2] + " " + L[3]).strip()), s, v, flatten, label, nested_struct)
    if k in ("arr", "arrnode"):
        if not isinstance(x, np.ndarray if k == "arr" else NodeArr):
            return False, s, v
        if flatten:
            return True, s, v
        allowed = CATS[L[1]]
        if allowed is not None and x.dtype.name not in allowed:
            return False, s, v
        vd, why, s1, v1 = M.match(M.parse(L[2]), x.shape, s, v, {}, label=label)
        if vd == "ok":
            return True, s1, v1
        if vd == "no":
            return False, s, v
        if vd == "annot":
            raise Annot(why)
        raise Open(why)
    if k == "spytree":
        # a structured PyTree in the leaf type: beneath it a '?' axis belongs to IT - unless an enclosing structured
        # PyTree already gave a leaf position (label), in which case '?' is ambiguous (same verdict as 'outside')
        from . import trees as TM

        if x is None:
            return True, s, v
        inner = L[1]
        isl = lambda y: matches(y, inner, structs_only(s), {}, True)[0]
        s1, v1 = s, v
        if flatten:
            key = STRUCT_KEY + L[2]
            if key in s1 and s1[key] != TM.struct(x, isl if inner[0] != "any" else None):
                return False, s, v
        if not flatten:
            # the structure name is bound like an axis name: first use binds, later uses must agree; kept in the
            # axis dict under a key no axis can have, so that a failing leaf / alternative rolls it back with the rest
            key = STRUCT_KEY + L[2]
            st = TM.struct(x, isl if inner[0] != "any" else None)
            if key in s1:
                if s1[key] != st:
                    return False, s, v
            else:
                s1 = dict(s1)
                s1[key] = st
        for li, leaf in enumerate(TM.leaves(x, isl if inner[0] != "any" else None)):
            ok, s1, v1 = matches(leaf, inner, s1, v1, flatten, None if label is not None else f"<{L[2]}#{li}>")
            if not ok:
                return False, s, v
        return True, s1, v1
    if k == "pytree":
        from . import trees as TM

        if x is None:
            return True, s, v
        inner = L[1]
        isl = lambda y: matches(y, inner, structs_only(s), {}, True)[0]
        s1, v1 = s, v
        for leaf in TM.leaves(x, isl if inner[0] != "any" else None):
            ok, s1, v1 = matches(leaf, inner, s1, v1, flatten, label)
            if not ok:
                return False, s, v
        return True, s1, v1
    raise AssertionError(L)


def has_array(L):
    if L[0] in ("arr", "arrnest", "arrnode"):
        return True
    if L[0] == "typevar":
        return any(has_array(x) for x in L[2])
    if L[0] in ("tuple", "union", "pep604", "ntclass"):
        return any(has_array(x) for x in L[1])
    if L[0] in ("optional", "pytree", "spytree"):
        return has_array(L[1])
    return False


def show(L):
    k = L[0]
    if k in ("int", "str", "any", "none"):
        return {"int": "int", "str": "str", "any": "Any", "none": "None"}[k]
    if k == "tuple":
        return "tuple[" + ", ".join(show(x) for x in L[1]) + "]"
    if k == "typevar":
        return f"TypeVar({L[1]}: " + ", ".join(show(x) for x in L[2]) + ")"
    if k == "ntclass":
        return "NamedTuple(" + ", ".join(show(x) for x in L[1]) + ")"
    if k == "union":
        return "Union[" + ", ".join(show(x) for x in L[1]) + "]"
    if k == "pep604":
        return " | ".join(show(x) for x in L[1])
    if k == "optional":
        return f"Optional[{show(L[1])}]"
    if k == "arr":
        return f"{L[1]}[ndarray, {L[2]!r}]"
    if k == "arrnode":
        return f"{L[1]}[NodeArr, {L[2]!r}]"
    if k == "arrnest":
        return f"{L[1]}[Shaped[ndarray, {L[3]!r}], {L[2]!r}]"
    if k == "pytree":
        return f"PyTree[{show(L[1])}]"
    if k == "spytree":
        return f"PyTree[{show(L[1])}, {L[2]!r}]"

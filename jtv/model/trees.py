"""Pure-Python structure algebra for PyTrees, written without jax.tree_util.

Containers: tuple, list, dict (children in sorted-key order), None (a node with no
children), namedtuples, and instances of classes listed in CUSTOM (registered by the
harness with jax as well, children = obj.children, aux = obj.aux).
Everything else is a leaf.  `is_leaf(x)` may additionally declare any subtree a leaf.
"""

from __future__ import annotations

LEAF = ("leaf",)
CUSTOM = []  # classes with .children (list) and .aux (hashable)


def _is_namedtuple(x):
    return isinstance(x, tuple) and hasattr(type(x), "_fields")


def children(x):
    """-> (tag, child list) or None for a leaf"""
    if x is None:
        return ("none",), []
    if _is_namedtuple(x):
        return ("nt", type(x).__name__), list(x)
    if type(x) is tuple:
        return ("tuple",), list(x)
    if type(x) is list:
        return ("list",), list(x)
    if type(x) is dict:
        keys = sorted(x.keys())
        return ("dict", tuple(keys)), [x[k] for k in keys]
    for c in CUSTOM:
        if type(x) is c:
            return ("custom", c.__name__, x.aux), list(x.children)
    return None


def struct(x, is_leaf=None):
    if is_leaf is not None and is_leaf(x):
        return LEAF
    ch = children(x)
    if ch is None:
        return LEAF
    tag, kids = ch
    return tag + (tuple(struct(k, is_leaf) for k in kids),)


def leaves(x, is_leaf=None):
    out = []

    def go(y):
        if is_leaf is not None and is_leaf(y):
            out.append(y)
            return
        ch = children(y)
        if ch is None:
            out.append(y)
            return
        for k in ch[1]:
            go(k)

    go(x)
    return out


def kids_of(s):
    return s[-1] if s != LEAF else ()


def n_leaves(s):
    if s == LEAF:
        return 1
    return sum(n_leaves(k) for k in kids_of(s))


def compose(s, t):
    """replace every leaf of s by t"""
    if s == LEAF:
        return t
    return s[:-1] + (tuple(compose(k, t) for k in kids_of(s)),)


def is_prefix(p, x):
    """p is a prefix of x: same nodes down to p's leaves, anything below them"""
    if p == LEAF:
        return True
    if x == LEAF:
        return False
    if p[:-1] != x[:-1] or len(kids_of(p)) != len(kids_of(x)):
        return False
    return all(is_prefix(a, b) for a, b in zip(kids_of(p), kids_of(x)))


def is_suffix(t, x):
    """the bottom layer of x consists of copies of t"""
    if x == t:
        return True
    if x == LEAF:
        return False
    return all(is_suffix(t, k) for k in kids_of(x))


def depth(s):
    if s == LEAF:
        return 0
    ks = kids_of(s)
    return 1 + (max(map(depth, ks)) if ks else 0)

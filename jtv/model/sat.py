"""Order-free (declarative) semantics of a *set* of (dim string, shape) pairs.

satisfiable(pairs, args) -> 'sat' | 'unsat' | 'open'

Formulation: there must exist one assignment  name -> size,  *name -> shape  such that
every pair matches, where a '#' axis equals its value or 1 and a '*#v' use is
broadcastable to v.  Because each annotation has at most one variadic, the slice a
variadic occupies is fixed by position, so existence reduces to per-name constraints over
the *sets* of uses — no order of processing appears anywhere in this file.
'open' = the assignment of a name that a symbolic expression needs is not determined by
the pairs (only '#' uses of size 1, or no uses): the documentation does not say.
"""

from __future__ import annotations

from . import dims as M


def _align(toks, shape):
    """-> list of (tok, size) for single axes and (vtok, subshape) or None; or 'rank'"""
    iv = next((i for i, t in enumerate(toks) if M.is_variadic(t)), None)
    if iv is None:
        if len(shape) != len(toks):
            return "rank"
        return list(zip(toks, shape)), None
    if len(shape) < len(toks) - 1:
        return "rank"
    nsuf = len(toks) - iv - 1
    singles = list(zip(toks[:iv], shape[:iv])) + list(zip(toks[iv + 1 :], shape[len(shape) - nsuf :]))
    return singles, (toks[iv], tuple(shape[iv : len(shape) - nsuf]))


def satisfiable(pairs, args=None):
    args = args or {}
    exact, bc = {}, {}  # name -> set of sizes
    vexact, vbc = {}, {}
    symbolic = []
    for toks, shape in pairs:
        al = _align(toks, tuple(shape))
        if al == "rank":
            return "unsat"
        singles, var = al
        for t, s in singles:
            if t.kind == "anon":
                continue
            if t.kind == "fixed":
                if not (t.size == s or (t.bcast and s == 1)):
                    return "unsat"
            elif t.kind == "named":
                if t.tree:
                    return "open"
                (bc if t.bcast else exact).setdefault(t.name, set()).add(s)
            elif t.kind == "symbolic":
                if not (t.bcast and s == 1):
                    symbolic.append((t, s))
        if var is not None and var[0].kind == "namedvar":
            if var[0].tree:
                return "open"
            (vbc if var[0].bcast else vexact).setdefault(var[0].name, set()).add(var[1])
    assign = {}
    for name in set(exact) | set(bc):
        e = exact.get(name, set())
        b = bc.get(name, set())
        if len(e) > 1:
            return "unsat"
        if e:
            (val,) = e
            if any(x != val and x != 1 for x in b):
                return "unsat"
            assign[name] = val
        else:
            nz = {x for x in b if x != 1}
            if len(nz) > 1:
                return "unsat"
            if nz:
                (assign[name],) = nz
            # else: undetermined (every use is '#' with size 1)
    for name in set(vexact) | set(vbc):
        e = vexact.get(name, set())
        b = vbc.get(name, set())
        if len(e) > 1:
            return "unsat"
        if e:
            (val,) = e
            for x in b:
                if M.broadcast_shapes(x, val) != val:
                    return "unsat"
        else:
            acc = ()
            for x in b:
                acc = M.broadcast_shapes(acc, x)
                if acc is None:
                    return "unsat"
    for t, s in symbolic:
        try:
            val = M._eval_symbolic(t.name, assign, args)
        except M._Annot:
            return "open"
        except M._Open:
            return "open"
        if val != s:
            return "unsat"
    return "sat"


def sequential(pairs, args=None):
    """The greedy left-to-right walk, for cross-checking: 'sat' | 'unsat' | 'annot' | 'open'."""
    s, v = {}, {}
    for toks, shape in pairs:
        vd, why, s, v = M.match(toks, shape, s, v, args or {})
        if vd == "no":
            return "unsat", s, v
        if vd in ("annot", "open"):
            return vd, s, v
    return "sat", s, v

"""Regenerate /verif/MANIFEST.json from the check modules (python -m jtv.manifest_gen)."""
import importlib
import json
import os

ROOT = os.path.dirname(os.path.dirname(os.path.abspath(__file__)))
IDS = [f"C{i:02d}" for i in range(1, 21)]
PY = "/venv/bin/python"

BASELINE = "cd /repo && /venv/bin/python -m pytest -ra -q -p no:cacheprovider --timeout=900 --continue-on-collection-errors"


def main():
    checks, na = [], []
    for pid in IDS:
        path = os.path.join(ROOT, "jtv", "checks", pid.lower() + ".py")
        if not os.path.exists(path):
            na.append({"property_id": pid, "reason": "check not built yet in this round (runtime monitor designed in DESIGN.md section 2, implementation pending)"})
            continue
        src = open(path).read()
        ns = {}
        # read the metadata without importing jaxtyping etc.
        meta = {}
        import ast
        tree = ast.parse(src)
        for node in tree.body:
            if isinstance(node, ast.Assign) and len(node.targets) == 1 and isinstance(node.targets[0], ast.Name):
                nm = node.targets[0].id
                if nm in ("LEVEL", "LEVEL_TEXT", "LEVEL_NOTE", "TECHNIQUE", "DESIGN_REF", "NOT_APPLICABLE"):
                    meta[nm] = ast.literal_eval(node.value)
        if meta.get("NOT_APPLICABLE"):
            na.append({"property_id": pid, "reason": meta["NOT_APPLICABLE"]})
            continue
        checks.append({
            "property_id": pid,
            "quick_cmd": f"{PY} -m jtv {pid} --tier quick",
            "thorough_cmd": f"{PY} -m jtv {pid} --tier thorough",
            "evidence_file": f"/verif/evidence/{pid}.json",
            "replay_cmd_template": f"{PY} -m jtv {pid} --replay {{path}}",
            "engine": "jtv",
            "level_claimed": {"category": meta.get("LEVEL", "exploration"), "text": meta["LEVEL_TEXT"], "design_ref": meta.get("DESIGN_REF", f"DESIGN.md section 2, {pid}")},
            "level_note": meta["LEVEL_NOTE"],
            "technique": meta["TECHNIQUE"],
        })
    man = {
        "version": 1,
        "setup_cmd": f"{PY} -m jtv.setup_check",
        "hooks": {
            "guard": "JAXTYPING_VERIF",
            "enable": "no source hooks: monitors are attached from the harness by monkey-patching after import; the guard name is reserved and unused",
            "baseline_off_cmd": BASELINE,
            "source_commits": [],
            "add_only": True,
        },
        "engines": [{
            "name": "jtv",
            "path": "/verif/jtv",
            "serves_properties": [c["property_id"] for c in checks],
            "kind_free_text": "runtime monitoring: generated/hostile workloads executed against the real jaxtyping in /repo under reference-model oracles, invariant hooks on shadowed thread-local state, controlled thread schedules, sys.monitoring failpoints and offline history checkers",
        }],
        "checks": checks,
        "notes": "All checks run /venv/bin/python with /repo first on sys.path (editable install), so they always exercise the current working tree; nothing is compiled. Exit 0 held / 1 VIOLATION / 2 INCONCLUSIVE (deciding counter zero or watchdog). Known findings: /verif/known_findings.json.",
        "not_applicable": na,
    }
    with open(os.path.join(ROOT, "MANIFEST.json"), "w") as f:
        json.dump(man, f, indent=1)
        f.write("\n")
    print(f"MANIFEST.json: {len(checks)} checks, {len(na)} not_applicable")


if __name__ == "__main__":
    main()

"""Shard fan-out, aggregation, verdicts, evidence, known-finding classification.

    python -m jtv <ID> [--tier quick|thorough] [--replay FILE] [--jobs N]

Exit codes: 0 held (possibly with KNOWN-FINDING lines), 1 violated (VIOLATION line),
2 inconclusive (INCONCLUSIVE line; never folded into the other two).
"""

from __future__ import annotations

import argparse
import hashlib
import importlib
import json
import os
import subprocess
import sys
import tempfile
import time
import traceback

ROOT = os.path.dirname(os.path.dirname(os.path.abspath(__file__)))
PY = sys.executable
ALL_IDS = [f"C{i:02d}" for i in range(1, 21)]


def h64(obj) -> int:
    s = obj if isinstance(obj, str) else json.dumps(obj, sort_keys=True, default=repr)
    return int.from_bytes(hashlib.blake2b(s.encode(), digest_size=8).digest(), "big")


class Rec:
    """Collector handed to a shard. Everything it holds is JSON-serialisable."""

    MAX_VIOL = 40
    MAX_SAMPLES = 3

    def __init__(self, prop, seed, shard, tier):
        self.prop, self.seed, self.shard, self.tier = prop, seed, shard, tier
        self.evaluations = 0
        self.distinct = set()
        self.counters = {}
        self.violations = []
        self.n_violations = 0
        self.samples = []
        self.unconstrained = {}
        self.inconclusive = []
        self.info = {}
        self._seen_mech = {}

    # one evaluated case; key identifies it; nontrivial by the check's own rule
    def case(self, key, nontrivial=True):
        self.evaluations += 1
        if nontrivial:
            self.distinct.add(h64(key))

    def count(self, name, n=1):
        self.counters[name] = self.counters.get(name, 0) + n

    def open_corner(self, name, n=1):
        self.unconstrained[name] = self.unconstrained.get(name, 0) + n

    def sample(self, obj):
        if len(self.samples) < self.MAX_SAMPLES:
            self.samples.append(obj)

    def violation(self, kind, case, detail="", mechanism=None):
        """kind: short oracle name; case: replayable input; mechanism: id of a
        deterministic predicate that this witness satisfies (or None)."""
        self.n_violations += 1
        k = (kind, mechanism)
        self._seen_mech[k] = self._seen_mech.get(k, 0) + 1
        if self._seen_mech[k] <= 3 and len(self.violations) < self.MAX_VIOL:
            self.violations.append(
                {"kind": kind, "mechanism": mechanism, "detail": detail, "case": case}
            )

    def dump(self):
        return {
            "shard": self.shard,
            "evaluations": self.evaluations,
            "distinct": sorted(self.distinct),
            "counters": self.counters,
            "violations": self.violations,
            "n_violations": self.n_violations,
            "viol_by_mech": [[k[0], k[1], v] for k, v in self._seen_mech.items()],
            "samples": self.samples,
            "unconstrained": self.unconstrained,
            "inconclusive": self.inconclusive,
            "info": self.info,
        }


def load_check(pid):
    return importlib.import_module(f"jtv.checks.{pid.lower()}")


def load_known():
    with open(os.path.join(ROOT, "known_findings.json")) as f:
        data = json.load(f)
    open_ = {}
    for e in data.get("findings", []):
        if e.get("status") == "open":
            open_[(e["property"], e["mechanism"])] = e
    return open_


def shard_main(argv):
    pid, shard_json, tier, seed, out = argv
    shard = json.loads(shard_json)
    if shard.get("import_first"):
        # a process in which other libraries were imported BEFORE the library under test (import order is part of a
        # process's history; by default the harness imports jaxtyping first)
        for name in shard["import_first"]:
            try:
                importlib.import_module(name)
            except Exception:  # noqa
                pass
    mod = load_check(pid)
    rec = Rec(pid, int(seed), shard, tier)
    t0 = time.time()
    try:
        mod.run_shard(rec, int(seed), shard, tier)
    except BaseException as e:  # harness failure: inconclusive, never a verdict
        try:
            tb = traceback.format_exc()[-1500:]
        except BaseException:  # noqa - formatting a RecursionError's traceback can itself overflow
            tb = "<traceback could not be formatted>"
        rec.inconclusive.append(f"shard {shard} crashed: {type(e).__name__}: {str(e)[:300]}\n" + tb)
    d = rec.dump()
    d["wall_s"] = time.time() - t0
    with open(out, "w") as f:
        json.dump(d, f, default=repr)


def _env():
    env = dict(os.environ)
    env["PYTHONHASHSEED"] = "0"
    # JTV_REPO: tree under test (default /repo, the editable install). Only the
    # self-test driver points it at a scratch copy.
    repo = os.environ.get("JTV_REPO", "/repo")
    env["JTV_REPO"] = repo
    env["PYTHONPATH"] = repo + os.pathsep + ROOT + os.pathsep + env.get("PYTHONPATH", "")
    env.setdefault("JAX_PLATFORMS", "cpu")
    env.setdefault("TF_CPP_MIN_LOG_LEVEL", "3")
    env.setdefault("XLA_FLAGS", "--xla_force_host_platform_device_count=1")
    # keep BLAS/XLA from oversubscribing the 16 cores when 16 shards run
    env.setdefault("OMP_NUM_THREADS", "1")
    env.setdefault("OPENBLAS_NUM_THREADS", "1")
    return env


def run_shards(pid, shards, tier, seed, jobs, timeout):
    tmpd = tempfile.mkdtemp(prefix=f"jtv_{pid}_")
    procs = []
    results = []
    pending = list(enumerate(shards))
    running = []
    env = _env()
    try:
        while pending or running:
            while pending and len(running) < jobs:
                i, sh = pending.pop(0)
                out = os.path.join(tmpd, f"s{i}.json")
                log = open(os.path.join(tmpd, f"s{i}.log"), "w")
                p = subprocess.Popen(
                    # shard["python_flags"]: interpreter options of the process that runs the shard (e.g. ["-O"])
                    [PY, *sh.get("python_flags", []), "-m", "jtv.shard", pid, json.dumps(sh), tier, str(seed), out],
                    cwd=ROOT,
                    env=env,
                    stdout=log,
                    stderr=subprocess.STDOUT,
                )
                running.append((p, i, sh, out, log, time.time()))
            time.sleep(0.05)
            still = []
            for p, i, sh, out, log, t0 in running:
                rc = p.poll()
                if rc is None:
                    if time.time() - t0 > timeout:
                        p.kill()
                        p.wait()
                        log.close()
                        results.append(
                            {
                                "shard": sh,
                                "inconclusive": [f"watchdog: shard {sh} exceeded {timeout}s"],
                            }
                        )
                    else:
                        still.append((p, i, sh, out, log, t0))
                    continue
                log.close()
                try:
                    with open(out) as f:
                        results.append(json.load(f))
                except Exception:
                    tail = open(log.name).read()[-1500:]
                    results.append(
                        {
                            "shard": sh,
                            "inconclusive": [f"shard {sh} exited rc={rc} without result: {tail}"],
                        }
                    )
            running = still
    finally:
        for p, *_ in running:
            try:
                p.kill()
            except Exception:
                pass
        import shutil

        shutil.rmtree(tmpd, ignore_errors=True)
    return results


def aggregate(pid, mod, results, tier, seed, wall):
    ev = 0
    distinct = set()
    counters = {}
    unconstrained = {}
    viols = []
    nviol = 0
    samples = []
    inconcl = []
    info = {}
    by_mech = {}
    for r in results:
        ev += r.get("evaluations", 0)
        distinct.update(r.get("distinct", []))
        for k, v in r.get("counters", {}).items():
            counters[k] = counters.get(k, 0) + v
        for k, v in r.get("unconstrained", {}).items():
            unconstrained[k] = unconstrained.get(k, 0) + v
        viols.extend(r.get("violations", []))
        nviol += r.get("n_violations", 0)
        for kind, mech, n in r.get("viol_by_mech", []):
            by_mech[(kind, mech)] = by_mech.get((kind, mech), 0) + n
        for s in r.get("samples", []):
            if len(samples) < 6:
                samples.append(s)
        inconcl.extend(r.get("inconclusive", []))
        for k, v in r.get("info", {}).items():
            if isinstance(v, (int, float)) and not isinstance(v, bool):
                info[k] = info.get(k, 0) + v
            elif isinstance(v, list):
                info.setdefault(k, [])
                for x in v:
                    if x not in info[k] and len(info[k]) < 200:
                        info[k].append(x)
            else:
                info[k] = v
    # required counters decide "inconclusive"
    req = mod.required_counters(tier) if hasattr(mod, "required_counters") else {}
    for name, minimum in req.items():
        if counters.get(name, 0) < minimum:
            inconcl.append(
                f"deciding counter '{name}' = {counters.get(name, 0)} < required {minimum}"
            )
    return dict(
        ev=ev,
        distinct=len(distinct),
        counters=counters,
        unconstrained=unconstrained,
        viols=viols,
        nviol=nviol,
        by_mech=by_mech,
        samples=samples,
        inconcl=inconcl,
        info=info,
        wall=wall,
    )


def write_replay(pid, v):
    d = os.path.join(ROOT, "replays", pid)
    os.makedirs(d, exist_ok=True)
    name = (v.get("mechanism") or v["kind"]).replace("/", "_").replace(" ", "_")
    name = f"{name}-{h64(v['case']):016x}.json"
    path = os.path.join(d, name)
    with open(path, "w") as f:
        json.dump({"property": pid, **v}, f, indent=1, default=repr)
    return path


def main(argv=None):
    try:
        return _main(argv)
    except BrokenPipeError:
        # stdout was closed by the reader (e.g. `| head`): the verdict is in the exit code and the evidence file
        try:
            sys.stdout = open(os.devnull, "w")
        except Exception:
            pass
        return _LAST_RC[0]


_LAST_RC = [2]


def _main(argv=None):
    ap = argparse.ArgumentParser(prog="jtv")
    ap.add_argument("pid")
    ap.add_argument("--tier", default=os.environ.get("VERIF_TIER", "quick"))
    ap.add_argument("--replay")
    ap.add_argument("--jobs", type=int, default=int(os.environ.get("VERIF_JOBS", "16")))
    ap.add_argument("--no-evidence", action="store_true")
    a = ap.parse_args(argv)
    pid = a.pid.upper()
    tier = a.tier if a.tier in ("quick", "thorough") else "quick"
    try:
        seed = int(os.environ.get("VERIF_SEED", "0"))
    except ValueError:
        seed = h64(os.environ["VERIF_SEED"]) % (2**31)
    mod = load_check(pid)

    if a.replay:
        with open(a.replay) as f:
            w = json.load(f)
        rec = Rec(pid, seed, "replay", tier)
        mod.replay(rec, w["case"])
        if rec.n_violations:
            for v in rec.violations:
                print("REPLAYED", json.dumps(v, default=repr)[:2000])
            print(f"VIOLATION property={pid} replay={a.replay}")
            return 1
        print(f"replay of {a.replay}: no violation on the current tree")
        return 0

    t0 = time.time()
    shards = mod.shards(tier)
    timeout = getattr(mod, "SHARD_TIMEOUT", {"quick": 600, "thorough": 3600})[tier]
    results = run_shards(pid, shards, tier, seed, a.jobs, timeout)
    wall = time.time() - t0
    agg = aggregate(pid, mod, results, tier, seed, wall)

    known = load_known()
    new, knownhits = [], {}
    for v in agg["viols"]:
        key = (pid, v.get("mechanism"))
        if v.get("mechanism") and key in known:
            knownhits.setdefault(v["mechanism"], []).append(v)
        else:
            new.append(v)
    # counts by mechanism (not capped)
    unknown_total = sum(
        n for (kind, mech), n in agg["by_mech"].items() if not (mech and (pid, mech) in known)
    )
    known_total = {
        mech: n for (kind, mech), n in agg["by_mech"].items() if mech and (pid, mech) in known
    }

    status = "held"
    rc = 0
    lines = []
    for mech, n in sorted(known_total.items()):
        e = known[(pid, mech)]
        lines.append(f"KNOWN-FINDING: property={pid} {mech}: {e['what']} (observed {n}x this run)")
    if new or unknown_total:
        status, rc = "violated", 1
        seen = set()
        for v in new:
            k = (v["kind"], v.get("mechanism"))
            if k in seen:
                continue
            seen.add(k)
            path = write_replay(pid, v)
            print(f"witness kind={v['kind']} mechanism={v.get('mechanism')} detail={str(v['detail'])[:600]}")
            lines.append(f"VIOLATION property={pid} replay={path}")
    elif agg["inconcl"]:
        status, rc = "inconclusive", 2
        for r in agg["inconcl"][:8]:
            lines.append(f"INCONCLUSIVE property={pid} reason={str(r)[:800]}")

    _LAST_RC[0] = rc
    level = getattr(mod, "LEVEL", "exploration")
    cov = {
        "evaluations": agg["ev"],
        "distinct_nontrivial": agg["distinct"],
        "rule": mod.RULE,
        "samples": agg["samples"] or ["<none recorded>"],
        "counters": dict(sorted(agg["counters"].items())),
        "unconstrained_open_corners": agg["unconstrained"],
        "required_counters": mod.required_counters(tier) if hasattr(mod, "required_counters") else {},
        "shards": len(shards),
        "verdict": status,
        "known_findings_observed": known_total,
        "inconclusive_reasons": [str(x)[:400] for x in agg["inconcl"][:10]],
        "info": agg["info"],
    }
    if getattr(mod, "EXHAUSTIVE", False) and status == "held":
        cov["exhaustive"] = True
    if hasattr(mod, "extra_coverage"):
        cov.update(mod.extra_coverage(agg, tier))
    evidence = {
        "property_id": pid,
        "tier": tier,
        "seed": seed,
        "level": level,
        "coverage": cov,
        "assumptions": getattr(mod, "ASSUMPTIONS", []),
        "wall_s": round(wall, 2),
        "violations": len(new) if new else (unknown_total),
    }
    if not a.no_evidence:
        os.makedirs(os.path.join(ROOT, "evidence"), exist_ok=True)
        with open(os.path.join(ROOT, "evidence", f"{pid}.json"), "w") as f:
            json.dump(evidence, f, indent=1, default=repr)
            f.write("\n")
    print(
        f"{pid} tier={tier} seed={seed} verdict={status} evaluations={agg['ev']} "
        f"distinct={agg['distinct']} wall={wall:.1f}s"
    )
    ctr = ", ".join(f"{k}={v}" for k, v in sorted(agg["counters"].items()))
    print(f"  counters: {ctr}"[:3000])
    if agg["unconstrained"]:
        print(f"  open corners (not judged): {agg['unconstrained']}")
    for ln in lines:
        print(ln)
    return rc

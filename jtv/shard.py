import sys
from .runner import shard_main
shard_main(sys.argv[1:])

"""Acceptance vectors: what an annotation accepts over a fixed probe set, observed only
through isinstance + print_bindings. Two annotations 'mean the same' iff their vectors
are equal. Used by C14 (spellings), C15 (laws) and C20 (serialisation round trips)."""

from __future__ import annotations

import numpy as np

from . import real

SHAPES = [(), (1,), (2,), (3,), (0,), (1, 1), (2, 3), (3, 2), (2, 2), (1, 3), (2, 1), (3, 3), (2, 3, 4), (1, 2, 3), (2, 2, 2), (2, 3, 2), (4, 2, 3, 2), (1, 1, 1, 1), (2, 0, 3), (5, 4, 3, 2, 1)]
SHAPES_SMALL = [(), (1,), (2,), (3,), (2, 3), (3, 2), (1, 3), (2, 3, 4), (2, 3, 2), (4, 2, 3, 2)]

# prior states: list of (dim string, shape) accepted first in the same context
PRIORS = [
    [],
    [("a b *v", (2, 3, 2))],
    [("a", (3,)), ("*#v", (1, 3)), ("foo", (2,))],
]


def _prep(prior):
    import jaxtyping

    for spec, shape in prior:
        isinstance(real.np_array(shape), jaxtyping.Shaped[np.ndarray, spec])


def vector(ann, values=None, priors=PRIORS, with_bindings=True, ctx_args=None):
    """-> tuple of (verdict, bindings-or-None) over priors x values. Each probe runs in
    its own fresh context so that probes do not influence each other."""
    if values is None:
        values = [real.np_array(s) for s in SHAPES]
    out = []
    for prior in priors:
        for x in values:

            def body():
                _prep(prior)
                got = real.check(x, ann)
                return got, (real.raw_transcript() if with_bindings and got == "ok" else None)

            if ctx_args is not None:
                out.append(real.in_call_context(ctx_args[0], ctx_args[1], body))
            else:
                out.append(real.in_block_context(body))
    return tuple(out)


DTYPE_VALUES = None


def dtype_values():
    """arrays of many dtype kinds x a few shapes, NumPy + JAX + python/numpy scalars + duck"""
    global DTYPE_VALUES
    if DTYPE_VALUES is None:
        import jax
        import jax.numpy as jnp
        import ml_dtypes

        vals = []
        for dt in ("bool", "int8", "int32", "int64", "uint8", "uint32", "float16", "float32", "float64", "complex64", "complex128"):
            for sh in ((), (2,), (2, 3), (3,), (1, 3), (2, 3, 4)):
                vals.append(real.np_array(sh, dt))
        for dt in (ml_dtypes.bfloat16, ml_dtypes.float8_e4m3fn, ml_dtypes.int4):
            for sh in ((), (2,), (2, 3)):
                vals.append(np.zeros(sh, dtype=dt))
        for dt in ("bool", "int32", "uint8", "float32", "bfloat16", "complex64"):
            for sh in ((), (2,), (2, 3), (2, 3, 4)):
                vals.append(jax.device_put(np.zeros(sh, dtype=dt)))
        vals.append(jax.random.key(0))
        vals.append(jax.random.split(jax.random.key(0), 2))
        vals.append(jax.random.PRNGKey(0))
        vals += [True, 1, 1.5, 1j, np.float32(1), np.int64(2), np.bool_(True), "s", None, [1.0], real.Duck((2, 3), "float32"), real.Duck((), "int8")]
        DTYPE_VALUES = vals
    return DTYPE_VALUES


def describe_value(x):
    if hasattr(x, "shape") and hasattr(x, "dtype"):
        return f"{type(x).__name__}{tuple(x.shape)}:{x.dtype}"
    return repr(x)

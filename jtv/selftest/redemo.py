"""Re-confirm every stored seeded change against the CURRENT /repo: the patch applies, and its demonstration exits 0
on the unchanged tree and non-zero on the changed one.  A patch can keep applying after a /repo fix and yet have been
neutralised by it (e.g. it adds a method that a later definition in the same class now shadows).

    python -m jtv.selftest.redemo [--jobs 8] [--update-meta]
"""
import argparse
import concurrent.futures as cf
import json
import os
import shutil
import sys
import time

from . import intake as IN
from . import mutate as MU


def one(name):
    d = os.path.join(MU.ROOT, "seeded", name)
    mj = json.load(open(os.path.join(d, "meta.json")))
    if mj.get("obsolete"):
        return name, "obsolete", ""
    scratch = MU.make_scratch("redemo_" + name)
    demo_dir = os.path.join(scratch, "_demo")
    os.makedirs(demo_dir)
    demo = os.path.join(demo_dir, "demo.py")
    shutil.copy(os.path.join(d, "demo.py"), demo)
    try:
        rc0, out0 = IN.run_demo(demo, scratch)
        try:
            MU.apply_patch(scratch, os.path.join(d, "patch.diff"))
        except Exception as e:  # noqa
            return name, "NOAPPLY", str(e)[:200]
        rc1, out1 = IN.run_demo(demo, scratch)
        if rc0 == 0 and rc1 != 0:
            return name, "ok", ""
        if rc0 == 0 and rc1 == 0 and mj.get("demo_neutralised"):
            return name, "ok", "demo neutralised by a later /repo fix (acknowledged in meta.json); the change itself is still caught"
        return name, f"DEMO unchanged_rc={rc0} changed_rc={rc1}", (out0 if rc0 else out1)[-300:]
    except Exception as e:  # noqa
        return name, "ERROR", repr(e)[:300]
    finally:
        shutil.rmtree(scratch, ignore_errors=True)


def main():
    ap = argparse.ArgumentParser()
    ap.add_argument("--jobs", type=int, default=8)
    ap.add_argument("--only")
    ap.add_argument("--update-meta", action="store_true")
    a = ap.parse_args()
    names = sorted(n for n in os.listdir(os.path.join(MU.ROOT, "seeded")) if os.path.exists(os.path.join(MU.ROOT, "seeded", n, "meta.json")))
    if a.only:
        names = [n for n in names if a.only in n]
    bad = 0
    with cf.ThreadPoolExecutor(a.jobs) as ex:
        for name, status, detail in ex.map(one, names):
            if status not in ("ok", "obsolete"):
                bad += 1
                print(f"{name:16s} {status} {detail!r}", flush=True)
            if a.update_meta and status != "obsolete":
                p = os.path.join(MU.ROOT, "seeded", name, "meta.json")
                mj = json.load(open(p))
                mj["redemo"] = {"status": status, "at": time.strftime("%Y-%m-%d %H:%M")}
                json.dump(mj, open(p, "w"), indent=1)
    print(f"{len(names)} seeds, {bad} not reproducing on the current tree")
    return 1 if bad else 0


if __name__ == "__main__":
    sys.exit(main())

"""Record the results of a `mutate --seeded` run that was executed elsewhere (e.g. `vp run`, from a committed
snapshot) in seeded/<id>/meta.json:   python -m jtv.selftest.applylog <log> [--commit <hash>]"""
import json
import os
import re
import sys
import time

ROOT = os.path.dirname(os.path.dirname(os.path.dirname(os.path.abspath(__file__))))
LINE = re.compile(r"^(agent-\S+)\s+(C\d\d) (CAUGHT|MISSED rc=(-?\d+))\s+([\d.]+)s(.*)$")


def main():
    log = sys.argv[1]
    commit = sys.argv[sys.argv.index("--commit") + 1] if "--commit" in sys.argv else "?"
    n = 0
    for l in open(log):
        m = LINE.match(l.rstrip())
        if not m:
            continue
        sid, pid, res, rc, wall, rest = m.groups()
        mp = os.path.join(ROOT, "seeded", sid, "meta.json")
        if not os.path.exists(mp):
            continue
        mj = json.load(open(mp))
        mj.setdefault("recheck", {})[pid] = {"tier": "quick", "caught": res == "CAUGHT", "rc": 1 if res == "CAUGHT" else int(rc), "wall_s": float(wall), "witness": rest.strip()[:300], "verif_commit": commit, "at": time.strftime("%Y-%m-%d %H:%M"), "via": "vp run (committed snapshot)"}
        json.dump(mj, open(mp, "w"), indent=1)
        n += 1
    print("recorded", n)


main()

"""Regenerate the seeded-change table of DESIGN.md (between the SEEDED-TABLE markers) from /verif/seeded/*/meta.json."""
import glob
import json
import os
import re

ROOT = os.path.dirname(os.path.dirname(os.path.dirname(os.path.abspath(__file__))))


def first_sentence(notes, seed_id):
    if not notes:
        return ""
    txt = notes
    # take the part about this change (a/c = first change, b/d = second)
    second = seed_id[-1] in "bd"
    parts = re.split(r"(?im)^\s*(?:#+\s*)?(?:\*\*)?\s*(?:change|patch)\s*2|^\s*#+.*patch2|^\s*\*\*.?patch2", txt)
    if second and len(parts) > 1:
        txt = parts[1]
    elif not second:
        txt = parts[0]
    txt = re.sub(r"[#*`]", "", txt)
    lines = [l.strip(" -") for l in txt.splitlines() if len(l.strip()) > 60 and "seeded change" not in l.lower() and "standalone" not in l.lower()[:40]]
    lines = [re.sub(r"^(What|Change|Bug|Effect)( it is)?:\s*", "", l) for l in lines]
    return (lines[0] if lines else "")[:230].replace("|", "/")


def main():
    rows = []
    for f in sorted(glob.glob(os.path.join(ROOT, "seeded", "*", "meta.json"))):
        m = json.load(open(f))
        sid = m["seed_id"]
        pid = m["property"]
        first = m["checks"].get(pid, {})
        rc_all = m.get("recheck", {})
        re_ = rc_all.get(pid, {})
        other = [k for k, v in rc_all.items() if k != pid and v.get("caught")]
        mech = ""
        w = (re_ if re_.get("caught") else (rc_all[other[0]] if other else (re_ or first))).get("witness", "")
        mm = re.search(r"mechanism=(\S+)", w)
        if mm:
            mech = mm.group(1)[:60]
        now = ("caught" if re_.get("caught") else "MISSED") if re_ else "-"
        if now != "caught" and other:
            now = "caught by " + "/".join(other)
        if m.get("disputed") and not now.startswith("caught"):
            now = "not judged (open corner, see meta.json)"
        if m.get("obsolete"):
            now = "obsolete (see meta.json)"
        rows.append((sid, pid, "caught" if first.get("caught") else "MISSED", now, mech, first_sentence(m.get("needs_to_manifest", ""), sid)))
    n = len(rows)
    c1 = sum(r[2] == "caught" for r in rows)
    c2 = sum(r[3].startswith("caught") or (r[3] == "-" and r[2] == "caught") for r in rows)
    rest = [f"{r[0]}: {r[3]}" for r in rows if not (r[3].startswith("caught") or (r[3] == "-" and r[2] == "caught"))]
    out = [f"{n} changes kept (each: patch applies to HEAD, suite 267 passed / same 6 failures, demo exits 0 unchanged and non-zero changed). First run of the property's own quick check: **{c1}/{n} caught**; after strengthening: **{c2}/{n} caught** (by its own check or, where the table says so, by the check of the property whose machinery the change really touches). Not caught: {'; '.join(rest) or 'none'}.", "", "| seed | property | first run | now | witness mechanism | what the change is / needs |", "|---|---|---|---|---|---|"]
    for r in rows:
        out.append("| " + " | ".join(r) + " |")
    table = "\n".join(out)
    p = os.path.join(ROOT, "DESIGN.md")
    s = open(p).read()
    a, b = "<!-- SEEDED-TABLE-BEGIN -->", "<!-- SEEDED-TABLE-END -->"
    if a in s:
        s = s[: s.index(a) + len(a)] + "\n" + table + "\n" + s[s.index(b):]
        open(p, "w").write(s)
    print(table[:600])


if __name__ == "__main__":
    main()

"""Self-test driver: apply a property-breaking change to a *scratch copy* of /repo and
confirm the check fires.  Never touches /repo.

    python -m jtv.selftest.mutate [--only C01[,C04]] [--mutant id] [--suite] [--tier quick]

Mutants are (id, property, file, old, new) textual replacements listed in mutants.py, or
patch files under /verif/seeded/<id>/patch.diff (applied with `git apply` in the scratch).
"""

from __future__ import annotations

import argparse
import json
import os
import shutil
import subprocess
import sys
import tempfile
import time

ROOT = os.path.dirname(os.path.dirname(os.path.dirname(os.path.abspath(__file__))))
REPO = "/repo"


def make_scratch(tag):
    d = tempfile.mkdtemp(prefix=f"jtvmut_{tag}_")
    for sub in ("jaxtyping", "test", "pyproject.toml"):
        src = os.path.join(REPO, sub)
        dst = os.path.join(d, sub)
        if os.path.isdir(src):
            shutil.copytree(src, dst, ignore=shutil.ignore_patterns("__pycache__"))
        else:
            shutil.copy(src, dst)
    return d


def apply_text(scratch, file, old, new, count=1):
    p = os.path.join(scratch, file)
    s = open(p).read()
    if s.count(old) < 1:
        raise RuntimeError(f"mutant anchor not found in {file}: {old[:60]!r}")
    s = s.replace(old, new, count)
    open(p, "w").write(s)


def apply_patch(scratch, patch):
    subprocess.run(["git", "init", "-q"], cwd=scratch, check=True)
    r = subprocess.run(["git", "apply", "--whitespace=nowarn", patch], cwd=scratch, capture_output=True, text=True)
    if r.returncode:
        raise RuntimeError("patch failed: " + r.stderr)


def run_check(pid, scratch, tier, seed="0"):
    env = dict(os.environ)
    env["JTV_REPO"] = scratch
    env["VERIF_SEED"] = seed
    env["PYTHONPATH"] = ROOT
    t0 = time.time()
    r = subprocess.run(
        [sys.executable, "-m", "jtv", pid, "--tier", tier, "--no-evidence"],
        cwd=ROOT, env=env, capture_output=True, text=True, timeout=3600,
    )
    return r.returncode, r.stdout + r.stderr, time.time() - t0


def run_suite(scratch):
    env = dict(os.environ)
    env["PYTHONPATH"] = scratch
    r = subprocess.run(
        [sys.executable, "-m", "pytest", "-q", "-p", "no:cacheprovider", "--timeout=900", "-x", "-q",
         "--deselect", "test/test_decorator.py::test_mlx",
         "--deselect", "test/test_generators.py::test_generators_simple",
         "--deselect", "test/test_generators.py::test_generators_return_no_annotations",
         ],
        cwd=scratch, env=env, capture_output=True, text=True, timeout=1800,
    )
    tail = (r.stdout + r.stderr).strip().splitlines()[-1:]
    return r.returncode == 0, " ".join(tail)


def main():
    from .mutants import MUTANTS

    ap = argparse.ArgumentParser()
    ap.add_argument("--only")
    ap.add_argument("--mutant")
    ap.add_argument("--suite", action="store_true")
    ap.add_argument("--tier", default="quick")
    ap.add_argument("--seeded", action="store_true", help="also run /verif/seeded/*/patch.diff")
    ap.add_argument("--seeded-only", action="store_true", help="run only /verif/seeded/*/patch.diff")
    ap.add_argument("--checks", help="comma list of checks to run instead of the mutant's own property")
    ap.add_argument("--seeds", default="0", help="comma list of VERIF_SEED values; caught = caught under every seed")
    ap.add_argument("--update-meta", action="store_true", help="record the result under 'recheck' in seeded/<id>/meta.json")
    ap.add_argument("--part", help="K/N: only every N-th entry starting at K (to run N regressions side by side)")
    a = ap.parse_args()
    only = set(a.only.split(",")) if a.only else None
    todo = []
    if a.seeded_only:
        a.seeded = True
    for m in ([] if a.seeded_only else MUTANTS):
        if only and m["property"] not in only:
            continue
        if a.mutant and m["id"] != a.mutant:
            continue
        todo.append(m)
    if a.seeded:
        sd = os.path.join(ROOT, "seeded")
        for name in sorted(os.listdir(sd)):
            meta = os.path.join(sd, name, "meta.json")
            if os.path.exists(meta):
                mj = json.load(open(meta))
                if mj.get("obsolete"):
                    continue  # cannot be expressed on the current /repo any more (see meta.json)
                if only and mj["property"] not in only:
                    continue
                if a.mutant and name != a.mutant:
                    continue
                todo.append({"id": name, "property": mj["property"], "patch": os.path.join(sd, name, "patch.diff")})
    if a.part:
        k, n = (int(x) for x in a.part.split("/"))
        todo = todo[k::n]
    ok = True
    for m in todo:
        scratch = make_scratch(m["id"])
        try:
            if "patch" in m:
                apply_patch(scratch, m["patch"])
            else:
                for ed in m["edits"]:
                    apply_text(scratch, *ed)
            suite = ""
            if a.suite:
                good, tail = run_suite(scratch)
                suite = f" suite={'green' if good else 'RED'}({tail})"
            checks = a.checks.split(",") if a.checks else m.get("checks", [m["property"]])
            for pid in checks:
                seeds = a.seeds.split(",")
                results = [run_check(pid, scratch, a.tier, seed=sd) for sd in seeds]
                rc, out, wall = results[0]
                wall = sum(r[2] for r in results)
                n_caught = sum(1 for r in results if r[0] == 1 and "VIOLATION property=" in r[1])
                caught = n_caught == len(results)
                if len(results) > 1:
                    out = out + f"\nwitness caught under {n_caught}/{len(results)} seeds"
                    rc = 1 if caught else next((r[0] for r in results if r[0] != 1), rc)
                first = next((l for l in out.splitlines() if l.startswith("witness")), "")[:300]
                print(f"{m['id']:40s} {pid} {'CAUGHT' if caught else 'MISSED rc=%d' % rc} {wall:5.1f}s{suite} {first}", flush=True)
                if a.update_meta and "patch" in m:
                    mp = os.path.join(os.path.dirname(m["patch"]), "meta.json")
                    mj = json.load(open(mp))
                    head = subprocess.run(["git", "-C", ROOT, "log", "--format=%h", "-1"], capture_output=True, text=True).stdout.strip()
                    mj.setdefault("recheck", {})[pid] = {"tier": a.tier, "caught": caught, "rc": rc, "wall_s": round(wall, 1), "witness": first, "verif_commit": head, "at": time.strftime("%Y-%m-%d %H:%M")}
                    json.dump(mj, open(mp, "w"), indent=1)
                if not caught:
                    ok = False
                    if rc not in (0, 1):
                        print("    " + "\n    ".join(out.strip().splitlines()[-6:]))
        except Exception as e:  # noqa
            print(f"{m['id']:40s} ERROR {e}")
            ok = False
        finally:
            shutil.rmtree(scratch, ignore_errors=True)
    return 0 if ok else 1


if __name__ == "__main__":
    sys.exit(main())

"""Intake of a seeded change produced by an independent sub-agent.

    python -m jtv.selftest.intake <out_dir> <property> <seed-id> [--patch patch.diff --demo demo.py] [--checks C04,C12]

Confirms, in a scratch copy of /repo (never /repo itself):
  1. the patch applies to the current /repo HEAD tree,
  2. the repository's suite still gives its 267 passes,
  3. the demonstration exits 0 on the unchanged tree and non-zero on the changed one,
  4. which of our checks (quick tier) fire on it,
and then stores /verif/seeded/<seed-id>/{patch.diff, demo.py, notes.md, meta.json}.
"""

from __future__ import annotations

import argparse
import json
import os
import shutil
import subprocess
import sys
import time

from . import mutate as MU

ROOT = MU.ROOT


def run_demo(demo, libdir):
    env = dict(os.environ)
    env["PYTHONPATH"] = libdir
    env.pop("PYTHONDONTWRITEBYTECODE", None)
    env["PYTHONDONTWRITEBYTECODE"] = "1"
    r = subprocess.run([sys.executable, demo], capture_output=True, text=True, env=env, timeout=900, cwd=os.path.dirname(demo))
    return r.returncode, (r.stdout + r.stderr)[-400:]


def full_suite(scratch):
    env = dict(os.environ)
    env["PYTHONPATH"] = scratch
    r = subprocess.run([sys.executable, "-m", "pytest", "-q", "-p", "no:cacheprovider", "--timeout=900"], cwd=scratch, env=env, capture_output=True, text=True, timeout=3000)
    tail = (r.stdout + r.stderr).strip().splitlines()[-1]
    return tail


def main():
    ap = argparse.ArgumentParser()
    ap.add_argument("out_dir")
    ap.add_argument("property")
    ap.add_argument("seed_id")
    ap.add_argument("--patch", default="patch.diff")
    ap.add_argument("--demo", default="demo.py")
    ap.add_argument("--checks")
    ap.add_argument("--tier", default="quick")
    ap.add_argument("--no-store", action="store_true")
    a = ap.parse_args()
    patch = os.path.join(a.out_dir, a.patch)
    demo = os.path.join(a.out_dir, a.demo)
    meta = {"property": a.property, "seed_id": a.seed_id, "checked_at": time.strftime("%Y-%m-%d %H:%M:%S")}
    scratch = MU.make_scratch(a.seed_id)
    try:
        MU.apply_patch(scratch, patch)
        meta["patch_applies"] = True
        meta["suite"] = full_suite(scratch)
        meta["suite_ok"] = "267 passed" in meta["suite"] and "6 failed" in meta["suite"]
        rc0, out0 = run_demo(demo, "/repo")
        rc1, out1 = run_demo(demo, scratch)
        meta["demo_unchanged_rc"], meta["demo_changed_rc"] = rc0, rc1
        meta["demo_changed_output"] = out1
        meta["demo_ok"] = rc0 == 0 and rc1 != 0
        checks = a.checks.split(",") if a.checks else [a.property]
        meta["checks"] = {}
        for pid in checks:
            rc, out, wall = MU.run_check(pid, scratch, a.tier)
            caught = rc == 1 and "VIOLATION property=" in out
            w = next((l for l in out.splitlines() if l.startswith("witness")), "")[:400]
            meta["checks"][pid] = {"tier": a.tier, "caught": caught, "rc": rc, "wall_s": round(wall, 1), "witness": w}
            print(f"{a.seed_id}: {pid} {'CAUGHT' if caught else 'MISSED rc=%d' % rc} {wall:.0f}s {w[:200]}")
    finally:
        shutil.rmtree(scratch, ignore_errors=True)
    print(json.dumps({k: v for k, v in meta.items() if k != "checks"}, indent=1)[:1500])
    if a.no_store:
        return 0
    if not (meta.get("suite_ok") and meta.get("demo_ok")):
        print("NOT STORED: the change does not satisfy the acceptance conditions")
        return 2
    d = os.path.join(ROOT, "seeded", a.seed_id)
    os.makedirs(d, exist_ok=True)
    shutil.copy(patch, os.path.join(d, "patch.diff"))
    shutil.copy(demo, os.path.join(d, "demo.py"))
    notes = os.path.join(a.out_dir, "notes.md")
    if os.path.exists(notes):
        shutil.copy(notes, os.path.join(d, "notes.md"))
        meta["needs_to_manifest"] = open(notes).read()[:1500]
    meta["what_was_run"] = [
        "patch applied to a scratch copy of /repo (never /repo itself)",
        "cd <scratch> && PYTHONPATH=<scratch> /venv/bin/python -m pytest -q -p no:cacheprovider --timeout=900",
        "PYTHONPATH=/repo python demo.py (expect 0); PYTHONPATH=<scratch> python demo.py (expect != 0)",
        "JTV_REPO=<scratch> python -m jtv <check> --tier quick",
    ]
    with open(os.path.join(d, "meta.json"), "w") as f:
        json.dump(meta, f, indent=1)
    print("stored", d)
    return 0


if __name__ == "__main__":
    sys.exit(main())

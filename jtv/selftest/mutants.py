"""The §3 breaks of DESIGN.md as textual edits: (file, old, new[, count])."""

A = "jaxtyping/_array_types.py"
D = "jaxtyping/_decorator.py"
P = "jaxtyping/_pytree_type.py"
S = "jaxtyping/_storage.py"
I = "jaxtyping/_import_hook.py"
C = "jaxtyping/_config.py"

MUTANTS = [
    # ---- C01
    dict(id="c01-drop-bcast-fixed", property="C01", edits=[(A, "elif cls_dim.broadcastable and obj_size == 1:", "elif cls_dim.broadcastable and obj_size == 1 and type(cls_dim) is not _FixedDim:")]),
    dict(id="c01-suffix-from-front", property="C01", edits=[(A, "cls.dims[j:], obj.shape[j:], single_memo, arg_memo", "cls.dims[j:], obj.shape[i:][: len(cls.dims[j:])] if len(obj.shape[i:]) >= len(cls.dims[j:]) else obj.shape[j:], single_memo, arg_memo")]),
    dict(id="c01-bcast-neq-new", property="C01", edits=[(A, "if broadcast_shape != prev_shape:", "if broadcast_shape != new_shape:")]),
    dict(id="c01-rank-le", property="C01", edits=[(A, "if len(obj.shape) < len(cls.dims) - 1:", "if len(obj.shape) <= len(cls.dims) - 1:")]),
    dict(id="c01-prevB-memo-not-updated", property="C01", edits=[(A, "                        variadic_memo[name] = (broadcastable, broadcast_shape)\n", "                        pass\n")]),
]

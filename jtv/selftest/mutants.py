"""The §3 breaks of DESIGN.md as textual edits: (file, old, new[, count])."""

A = "jaxtyping/_array_types.py"
D = "jaxtyping/_decorator.py"
P = "jaxtyping/_pytree_type.py"
S = "jaxtyping/_storage.py"
I = "jaxtyping/_import_hook.py"
C = "jaxtyping/_config.py"

MUTANTS = [
    # ---- C01
    dict(id="c01-drop-bcast-fixed", property="C01", edits=[(A, "elif cls_dim.broadcastable and obj_size == 1:", "elif cls_dim.broadcastable and obj_size == 1 and type(cls_dim) is not _FixedDim:")]),
    dict(id="c01-suffix-from-front", property="C01", edits=[(A, "cls.dims[j:], obj.shape[j:], single_memo, arg_memo", "cls.dims[j:], obj.shape[i:][: len(cls.dims[j:])] if len(obj.shape[i:]) >= len(cls.dims[j:]) else obj.shape[j:], single_memo, arg_memo")]),
    dict(id="c01-bcast-neq-new", property="C01", edits=[(A, "if broadcast_shape != prev_shape:", "if broadcast_shape != new_shape:")]),
    dict(id="c01-rank-le", property="C01", edits=[(A, "if len(obj.shape) < len(cls.dims) - 1:", "if len(obj.shape) <= len(cls.dims) - 1:")]),
    dict(id="c01-prevB-memo-not-updated", property="C01", edits=[(A, "                        variadic_memo[name] = (broadcastable, broadcast_shape)\n", "                        pass\n")]),
]

MUTANTS += [
    # ---- C04
    dict(id="c04-no-restore-on-false-array", property="C04", edits=[(A, """        else:
            set_shape_memo(
                single_memo_bak, variadic_memo_bak, pytree_memo_bak, arg_memo_bak
            )
            return check""", """        else:
            return check""")]),
    dict(id="c04-no-restore-on-exc-array", property="C04", edits=[(A, """        except BaseException:
            set_shape_memo(
                single_memo_bak, variadic_memo_bak, pytree_memo_bak, arg_memo_bak
            )
            raise""", """        except BaseException:
            raise""")]),
    dict(id="c04-restore-only-single", property="C04", edits=[(S, "        for memo, new_memo in zip(_shape_storage.memo_stack[-1], new_memos):", "        for memo, new_memo in list(zip(_shape_storage.memo_stack[-1], new_memos))[:1]:")]),
    dict(id="c04-no-restore-on-false-pytree", property="C04", edits=[(P, """        else:
            set_shape_memo(
                single_memo_bak, variadic_memo_bak, pytree_memo_bak, arg_memo_bak
            )
            return False""", """        else:
            return False""")]),
    dict(id="c04-except-exception-only", property="C04", edits=[(A, "        except BaseException:\n            set_shape_memo(", "        except Exception:\n            set_shape_memo(")]),
    dict(id="c04-pytree-except-exception-only", property="C04", edits=[(P, "        except BaseException:\n            set_shape_memo(", "        except Exception:\n            set_shape_memo(")]),
]

MUTANTS += [
    # ---- C02
    dict(id="c02-dataclass-not-wrapped", property="C02", edits=[(D, "            fn.__init__ = jaxtyped(fn.__init__, typechecker=typechecker)\n", "            pass\n")]),
    dict(id="c02-return-not-checked", property="C02", edits=[(D, "if full_signature.return_annotation is not inspect.Signature.empty:", "if False:")]),
    dict(id="c02-bcast1-binds", property="C02", edits=[(A, """        elif cls_dim.broadcastable and obj_size == 1:
            pass""", """        elif cls_dim.broadcastable and obj_size == 1:
            if type(cls_dim) is _NamedDim and not cls_dim.treepath:
                single_memo.setdefault(cls_dim.name, 1)""")]),
    dict(id="c02-prevB-nowF-unchecked", property="C02", edits=[(A, "if not broadcastable and broadcast_shape != new_shape:", "if False:")]),
]

MUTANTS += [
    # ---- C13
    dict(id="c13-stale-memos", property="C13", edits=[(S, """        new_memos = (single_memo, variadic_memo, pytree_memo, arg_memo)
        for memo, new_memo in zip(_shape_storage.memo_stack[-1], new_memos):
            if memo is not new_memo:
                memo.clear()
                memo.update(new_memo)""", """        _shape_storage.memo_stack[-1] = (single_memo, variadic_memo, pytree_memo, arg_memo)""")]),
    dict(id="c13-blame-first", property="C13", edits=[(D, "            fn(*args, **kwargs)\n        except Exception as e:\n            keep_value", "            fn(*args, **kwargs); raise ValueError()\n        except Exception as e:\n            keep_value")]),
    dict(id="c13-annot-wrapped", property="C13", edits=[(D, "                except AnnotationError:\n                    raise\n                except Exception:\n                    try:\n                        argmsg", "                except Exception:\n                    try:\n                        argmsg")]),
    dict(id="c13-stage-swapped", property="C13", edits=[(D, '"Type-check error whilst checking the return value "', '"Type-check error whilst checking the parameters "')]),
    dict(id="c13-cause-dropped", property="C13", edits=[(D, "raise TypeCheckError(msg) from e", "raise TypeCheckError(msg) from None")]),
    dict(id="c13-generic-typeerror", property="C13", edits=[(D, "raise TypeCheckError(msg) from e", "raise TypeError(msg) from e")]),
]

MUTANTS += [
    # ---- C08
    dict(id="c08-none-fails", property="C08", edits=[(P, "        if obj is None:\n            return True\n", "        if obj is None:\n            return False\n")]),
    dict(id="c08-flatten-without-is-leaf", property="C08", edits=[(P, "leaves, structure = jtu.tree_flatten(obj, is_leaf=is_leaf)", "leaves, structure = jtu.tree_flatten(obj)")]),
    dict(id="c08-leaf-loop-first-only", property="C08", edits=[(P, "                if not is_check_leaftype(leaf):\n                    return False\n", "                if not is_check_leaftype(leaf):\n                    return False\n                break\n")]),
    dict(id="c08-flatten-mode-not-set", property="C08", edits=[(P, "        set_treeflatten_memo()\n", "        pass\n")]),
    dict(id="c08-pep604-unchecked", property="C08", edits=[("jaxtyping/_typeguard/__init__.py", "    elif sys.version_info >= (3, 10) and isinstance(expected_type, UnionType):", "    elif False:")]),
]

MUTANTS += [
    # ---- C16
    dict(id="c16-label-without-leaf-index", property="C16", edits=[(S, 'label = f"(Leaf {index} in structure {structure}) "', 'label = f"(Leaf in structure {structure}) "')]),
    dict(id="c16-label-not-cleared-between-leaves", property="C16", edits=[(P, """                finally:
                    # Exactly what we set, so that an enclosing structured PyTree
                    # gets its own leaf position back.
                    clear_treepath_memo()""", """                finally:
                    pass""")]),
    dict(id="c16-variadic-name-not-prefixed", property="C16", edits=[(A, """                if variadic_dim.treepath:
                    name = get_treepath_memo() + variadic_dim.name""", """                if variadic_dim.treepath and False:
                    name = get_treepath_memo() + variadic_dim.name""")]),
    dict(id="c16-inner-clears-label", property="C16", edits=[(P, """            if cls.structure is None:
                # An unstructured `PyTree[...]` nested inside a structured one leaves
                # the outer PyTree's leaf position alone.
                if not is_check_leaftype(leaf):
                    return False""", """            if cls.structure is None:
                try:
                    if not is_check_leaftype(leaf):
                        return False
                finally:
                    clear_treepath_memo()""")]),
    dict(id="c16-label-ignores-structure-name", property="C16", edits=[(S, 'label = f"(Leaf {index} in structure {structure}) "', 'label = f"(Leaf {index}) "')]),
    dict(id="c16-toplevel-question-silent", property="C16", edits=[(S, """    if not stack:
        raise AnnotationError(
            "Cannot use `?` annotations""", """    if not stack:
        return ""
        raise AnnotationError(
            "Cannot use `?` annotations""")]),
    # F11 re-introduced: a structured PyTree inside another one's leaf type refuses to nest (D1) ...
    dict(id="c16-f11-structured-sibling-raises", property="C16", edits=[(S, """        stack.append(label)
""", """        raise AnnotationError("ambiguous which PyTree the `?` annotation refers to")
""")]),
    # ... and a leafless / finished inner structured PyTree wipes the enclosing leaf position (D2)
    dict(id="c16-f11-inner-structured-pops-outer", property="C16", edits=[(P, """                    clear_treepath_memo()
        return True
""", """                    clear_treepath_memo()
        if cls.structure is not None:
            clear_treepath_memo()
        return True
""")]),
    dict(id="c16-ambiguity-not-reported", property="C16", edits=[(S, "    if len(stack) > 1:\n        raise AnnotationError(", "    if len(stack) > 99:\n        raise AnnotationError(")]),
    dict(id="c16-ambiguous-uses-outer-label", property="C16", edits=[(S, "    return stack[0]\n", "    return stack[-1]\n"), (S, "    if len(stack) > 1:\n        raise AnnotationError(", "    if len(stack) > 99:\n        raise AnnotationError(")]),
    # F13 re-introduced: a context entered during a PyTree check inherits flatten mode / the '?' position
    dict(id="c02-f13-context-inherits-flatten-mode", property="C02", checks=["C02"], edits=[(S, "    _treeflatten_storage.value = False\n    _treepath_storage.value = None\n    return memos", "    return memos")]),
    dict(id="c02-f13-pop-does-not-restore", property="C02", checks=["C02", "C16"], edits=[(S, """    _treeflatten_storage.value, _treepath_storage.value = (
        _shape_storage.suspended.pop()
    )""", "    _shape_storage.suspended.pop()")]),
    # F12 re-introduced: trying a node as a leaf keeps the structure names it bound
    dict(id="c08-f12-leaf-trial-binds-structure-name", property="C08", checks=["C08", "C16"], edits=[(P, "                if pytree_memo != pytree_memo_bak:\n", "                if False:\n")]),
]

MUTANTS += [
    # ---- C09
    dict(id="c09-prefix-suffix-swapped", property="C09", edits=[(P, """                if pieces[0] == "...":
                    pieces = pieces[1:]
                    prefix = False
                    suffix = True""", """                if pieces[0] == "...":
                    pieces = pieces[1:]
                    prefix = True
                    suffix = False"""), (P, """                elif pieces[-1] == "...":
                    pieces = pieces[:-1]
                    prefix = True
                    suffix = False""", """                elif pieces[-1] == "...":
                    pieces = pieces[:-1]
                    prefix = False
                    suffix = True""")]),
    dict(id="c09-compose-reversed", property="C09", edits=[(P, "                for identifier in pieces:\n", "                for identifier in reversed(pieces):\n")]),
    dict(id="c09-structure-identity", property="C09", edits=[(P, "                    if prev_structure != structure:\n                        return False", "                    if prev_structure is not structure:\n                        return False")]),
    dict(id="c09-unbound-composite-false", property="C09", edits=[(P, """                    except KeyError as e:
                        raise AnnotationError(""", """                    except KeyError as e:
                        return False
                        raise AnnotationError(""")]),
    dict(id="c09-string-validation-skips-last", property="C09", edits=[(P, "                for piece_index, piece in enumerate(pieces):\n", "                for piece_index, piece in enumerate(pieces[:-1]):\n")]),
    dict(id="c09-suffix-any-instead-of-all", property="C09", edits=[(P, "if any(not has_structure(x) for x in dummy_leaves):", "if dummy_leaves and all(not has_structure(x) for x in dummy_leaves):")]),
]

MUTANTS += [
    # ---- C14
    dict(id="c14-modifier-loop-stops-after-first", property="C14", edits=[(A, """                    broadcastable = True
                    elem = elem[1:]
""", """                    broadcastable = True
                    elem = elem[1:]
                    break
""")]),
    dict(id="c14-anon-fixed-accepted", property="C14", edits=[(A, """            if anonymous:
                raise ValueError(
                    "Cannot have a fixed axis be anonymous, e.g. `_4` is not allowed."
                )""", """            if anonymous and False:
                raise ValueError(
                    "Cannot have a fixed axis be anonymous, e.g. `_4` is not allowed."
                )""")]),
    dict(id="c14-comma-check-dropped", property="C14", edits=[(A, """        if "," in elem and "(" not in elem:""", """        if False:""")]),
    dict(id="c14-nonstring-attributeerror", property="C14", edits=[(A, """        if not isinstance(dim_str, str):
            raise ValueError(
                "Shape specification must be a string. Axes should be separated with "
                "spaces."
            )
        dim_str = dim_str.strip()""", """        dim_str = dim_str.strip()""")]),
    dict(id="c14-tree-after-star-ignored", property="C14", edits=[(A, """                    treepath = True
                    elem = elem[1:]""", """                    treepath = not variadic
                    elem = elem[1:]""")]),
    dict(id="c14-split-not-strip", property="C14", edits=[(A, "for index, elem in enumerate(dim_str.split()):", "for index, elem in enumerate(dim_str.split(' ')):")]),
]

MUTANTS += [
    # ---- C03
    dict(id="c03-bfloat16-not-float", property="C03", edits=[(A, "+ [_bfloat16, _float16, _float32, _float64]", "+ [_float16, _float32, _float64]")]),
    # (reading tf's dtype.name instead of as_numpy_dtype.__name__ is an *equivalent* mutant on every
    #  instantiable TF dtype - 'bool' and 'bool_' are both in the Bool table - so it is not listed)
    # (... which turned out NOT to be equivalent: TF1 reference variables have dtypes named float32_ref, found by a round-6 seed)
    dict(id="c03-tf-dtype-name", property="C03", edits=[(A, "dtype = obj.dtype.as_numpy_dtype.__name__", "dtype = obj.dtype.name")]),
    dict(id="c03-tf-str-dtype", property="C03", edits=[(A, "dtype = obj.dtype.as_numpy_dtype.__name__", "dtype = obj.dtype.as_numpy_dtype.__name__.replace('16', '32')")]),
    dict(id="c03-startswith", property="C03", edits=[(A, "in_dtypes = dtype == cls_dtype", "in_dtypes = dtype.startswith(cls_dtype)")]),
    dict(id="c03-regex-search", property="C03", edits=[(A, "in_dtypes = bool(cls_dtype.match(dtype))", "in_dtypes = bool(cls_dtype.search(dtype))")]),
    dict(id="c03-repr-no-rsplit", property="C03", edits=[(A, '*_, dtype = repr(obj.dtype).rsplit(".", 1)', 'dtype = repr(obj.dtype).split(".", 1)[-1]')]),
    dict(id="c03-real-includes-complex", property="C03", edits=[(A, 'Real = _make_dtype(floats + uints + ints, "Real")', 'Real = _make_dtype(floats + uints + ints + complexes, "Real")')]),
    dict(id="c03-struct-any-void", property="C03", edits=[(A, "                dtype = str(obj.dtype)\n", "                dtype = 'void'\n")]),
    dict(id="c03-loop-no-break", property="C03", edits=[(A, "                if in_dtypes:\n                    break\n", "")]),
]

MUTANTS += [
    # ---- C15
    dict(id="c15-union-not-filtered", property="C15", edits=[(A, "            out = tuple(x for x in out if x is not _not_made)\n", "            out = tuple(out)\n")]),
    dict(id="c15-intersection-outer", property="C15", edits=[(A, "            dtypes = tuple(x for x in dtypes if x in array_type.dtypes)\n", "            dtypes = tuple(dtypes)\n")]),
    dict(id="c15-index-variadic-not-shifted", property="C15", edits=[(A, "index_variadic = array_type.index_variadic + len(dims)", "index_variadic = array_type.index_variadic")]),
    dict(id="c15-typevar-bound-ignored", property="C15", edits=[(A, "                array_type = bound\n", "                array_type = Any\n")]),
    dict(id="c15-scalar-any-axis", property="C15", edits=[(A, """        if dim is not _anonymous_variadic_dim and not isinstance(
            dim, _NamedVariadicDim
        ):
            return False""", """        if dim is not _anonymous_variadic_dim and not isinstance(
            dim, (_NamedVariadicDim, _NamedDim)
        ):
            return False""")]),
    dict(id="c15-dims-appended-not-prepended", property="C15", edits=[(A, "        dims = dims + array_type.dims\n", "        dims = array_type.dims + dims\n")]),
    dict(id="c15-inner-any-dtype-kept", property="C15", edits=[(A, "        if dtypes is _any_dtype:\n            dtypes = array_type.dtypes\n", "        if dtypes is _any_dtype:\n            pass\n")]),
    dict(id="c15-scalar-alias-wrong", property="C15", edits=[("jaxtyping/__init__.py", 'return Shaped[jax.Array, ""]', 'return Shaped[jax.Array, "..."]')]),
]

MUTANTS += [
    # ---- C20
    dict(id="c20-reducer-drops-arraytype", property="C20", edits=[(A, "        return x.dtype.__getitem__, (x._pickle_args,)", "        return x.dtype.__getitem__, ((Any, x._pickle_args[1]),)")]),
    dict(id="c20-reducer-flattened", property="C20", edits=[(A, "        return x.dtype.__getitem__, (x._pickle_args,)", "        return x.dtype.__getitem__, ((x.array_type, x.dim_str),)")]),
    dict(id="c20-sentinel-by-value", property="C20", edits=[(A, "    def __reduce__(self):\n        return self._name\n", "")]),
    dict(id="c20-reducer-strips-dims", property="C20", edits=[(A, "        return x.dtype.__getitem__, (x._pickle_args,)", "        return x.dtype.__getitem__, ((x._pickle_args[0], x._pickle_args[1].replace('#', '')),)")]),
]

MUTANTS += [
    # ---- C05
    dict(id="c05-pop-only-on-exception-class", property="C05", edits=[(D, """                try:
                    # Put this in a separate frame to make debugging easier, without
                    # just always ending up on the `pop_shape_memo` line below.
                    return wrapped_fn_impl(args, kwargs, bound, memos)
                finally:
                    pop_shape_memo()""", """                try:
                    out = wrapped_fn_impl(args, kwargs, bound, memos)
                except Exception:
                    pop_shape_memo()
                    raise
                pop_shape_memo()
                return out""")]),
    dict(id="c05-exit-pops-only-on-success", property="C05", edits=[(D, """    def __exit__(self, exc_type, exc_value, exc_tb):
        pop_shape_memo()""", """    def __exit__(self, exc_type, exc_value, exc_tb):
        if exc_type is None:
            pop_shape_memo()""")]),
    dict(id="c05-push-before-bind", property="C05", edits=[(D, """                bound = param_signature.bind(*args, **kwargs)
                bound.apply_defaults()

                memos = push_shape_memo(bound.arguments)""", """                memos = push_shape_memo({})
                bound = param_signature.bind(*args, **kwargs)
                bound.apply_defaults()
                memos[3].update(bound.arguments)""")]),
    dict(id="c05-oldstyle-pop-in-except", property="C05", edits=[(D, """                    raise
                finally:
                    pop_shape_memo()

        else:""", """                    pop_shape_memo()
                    raise
                else:
                    pop_shape_memo()

        else:""")]),
    dict(id="c05-toplevel-stateful", property="C05", edits=[(S, """        single_memo = {}
        variadic_memo = {}
        pytree_memo = {}
        arguments = {}
    return single_memo""", """        single_memo, variadic_memo, pytree_memo, arguments = _GLOBAL
    return single_memo"""), (S, "_shape_storage = threading.local()\n", "_shape_storage = threading.local()\n_GLOBAL = ({}, {}, {}, {})\n")]),
    dict(id="c05-exit-pops-only-on-exception-subclass", property="C05", edits=[(D, """    def __exit__(self, exc_type, exc_value, exc_tb):
        pop_shape_memo()""", """    def __exit__(self, exc_type, exc_value, exc_tb):
        if exc_type is None or issubclass(exc_type, Exception):
            pop_shape_memo()""")]),
    dict(id="c05-args-shared-with-caller", property="C05", edits=[(S, "    memos = ({}, {}, {}, arguments.copy())\n", "    memos = ({}, {}, {}, dict(memo_stack[-1][3], **arguments) if memo_stack else arguments.copy())\n")]),
]

_NS = "type('NS', (), {})()"
MUTANTS += [
    # ---- C06
    dict(id="c06-shape-storage-global", property="C06", edits=[(S, "_shape_storage = threading.local()", "_shape_storage = " + _NS)]),
    dict(id="c06-treepath-storage-global", property="C06", edits=[(S, "_treepath_storage = threading.local()", "_treepath_storage = " + _NS)]),
    dict(id="c06-treeflatten-storage-global", property="C06", edits=[(S, "_treeflatten_storage = threading.local()", "_treeflatten_storage = " + _NS)]),
]

MUTANTS += [
    # ---- C12
    dict(id="c12-flatten-clear-not-in-finally", property="C12", edits=[(P, """        try:
            leaves, structure = jtu.tree_flatten(obj, is_leaf=is_leaf)
        finally:
            if not already_flattening:
                clear_treeflatten_memo()""", """        leaves, structure = jtu.tree_flatten(obj, is_leaf=is_leaf)
        if not already_flattening:
            clear_treeflatten_memo()""")]),
    dict(id="c12-treepath-clear-not-in-finally", property="C12", edits=[(P, """                try:
                    if not is_check_leaftype(leaf):
                        return False
                finally:
                    # Exactly what we set, so that an enclosing structured PyTree
                    # gets its own leaf position back.
                    clear_treepath_memo()""", """                if not is_check_leaftype(leaf):
                    clear_treepath_memo()
                    return False
                clear_treepath_memo()""")]),
    dict(id="c12-transparent-param-annotations-too", property="C12", edits=[(D, """                if hasattr(fn, "__annotations__") and "return" in fn.__annotations__:
                    modify_annotation(fn.__annotations__["return"])""", """                if hasattr(fn, "__annotations__"):
                    for _a in fn.__annotations__.values():
                        modify_annotation(_a)""")]),
    dict(id="c12-newstyle-generator-transparent", property="C12", edits=[(D, """            full_signature = inspect.signature(fn)
            try:
                destring_annotations""", """            full_signature = inspect.signature(fn)
            if inspect.isgeneratorfunction(fn):
                for _a in getattr(fn, "__annotations__", {}).values():
                    if inspect.isclass(_a) and issubclass(_a, AbstractArray):
                        _a.make_transparent()
            try:
                destring_annotations""")]),
    dict(id="c12-pop-skipped-when-fn-raises-keyerror", property="C12", edits=[(D, """                try:
                    # Put this in a separate frame to make debugging easier, without
                    # just always ending up on the `pop_shape_memo` line below.
                    return wrapped_fn_impl(args, kwargs, bound, memos)
                finally:
                    pop_shape_memo()""", """                try:
                    out = wrapped_fn_impl(args, kwargs, bound, memos)
                except KeyError:
                    raise
                except BaseException:
                    pop_shape_memo()
                    raise
                pop_shape_memo()
                return out""")]),
    dict(id="c12-disable-flag-sticky", property="C12", edits=[("jaxtyping/_config.py", "            self.jaxtyping_disable = _maybestr2bool(value, msg)", "            self.jaxtyping_disable = _maybestr2bool(value, msg) or getattr(self, 'jaxtyping_disable', False)")]),
    dict(id="c12-pytree-cache-ignores-structure", property="C12", edits=[(P, """    @ft.lru_cache(maxsize=None)
    def __getitem__(cls, item):""", """    def __getitem__(cls, item):
        key = item[0] if isinstance(item, tuple) and len(item) == 2 else item
        try:
            return cls._jtv_cache[key]
        except (KeyError, AttributeError, TypeError):
            out = cls._getitem_impl(item)
            try:
                if not hasattr(cls, "_jtv_cache"):
                    cls._jtv_cache = {}
                cls._jtv_cache[key] = out
            except TypeError:
                pass
            return out

    def _getitem_impl(cls, item):""")]),
]

MUTANTS += [
    # ---- C07
    dict(id="c07-fn-called-twice", property="C07", edits=[(D, "                out = fn(*args, **kwargs)\n\n                if full_signature", "                fn(*args, **kwargs)\n                out = fn(*args, **kwargs)\n\n                if full_signature")]),
    # (c07-pass-bound-args: equivalent mutant - annotations/defaults are evaluated at def time in the enclosing scope, bound.args carries the same objects)
    dict(id="c07-drop-wraps", property="C07", edits=[(D, "            @ft.wraps(fn)\n            def wrapped_fn(*args, **kwargs):\n                __tracebackhide__ = True\n\n                if (", "            def wrapped_fn(*args, **kwargs):\n                __tracebackhide__ = True\n\n                if (")]),
    # (c07-gensym-ignores-param-names: equivalent mutant - annotations/defaults are evaluated at def time in the enclosing scope, bound.args carries the same objects)
    dict(id="c07-bind-after-push-wrong-error", property="C07", edits=[(D, "                bound = param_signature.bind(*args, **kwargs)\n                bound.apply_defaults()\n\n                memos = push_shape_memo(bound.arguments)", "                try:\n                    bound = param_signature.bind(*args, **kwargs)\n                except TypeError as e:\n                    raise TypeCheckError(str(e)) from None\n                bound.apply_defaults()\n\n                memos = push_shape_memo(bound.arguments)")]),
    dict(id="c07-result-copied", property="C07", edits=[(D, "                return out\n\n            wrapped_fn_holder = []", "                return out if not isinstance(out, list) else list(out)\n\n            wrapped_fn_holder = []")]),
    dict(id="c07-kwonly-star-missing-when-varpos-absent", property="C07", edits=[(D, "        assert len(varpos) == 0\n        if len(key) > 0:\n            argstr_pieces.append(\"*\")", "        assert len(varpos) == 0\n        if len(key) > 1:\n            argstr_pieces.append(\"*\")")]),
    dict(id="c07-classmethod-becomes-function", property="C07", edits=[(D, "        return classmethod(jaxtyped(fn.__func__, typechecker=typechecker))", "        return staticmethod(jaxtyped(fn.__func__, typechecker=typechecker))")]),
    dict(id="c07-lambda-syntaxerror", property="C07", edits=[(D, "    if name.isidentifier() and not keyword.iskeyword(name):\n        def_name = name\n    else:\n        def_name = _gensym(param_names, prefix=\"fn\")", "    def_name = name")]),
]

CFG = "jaxtyping/_config.py"
MUTANTS += [
    # ---- C19
    dict(id="c19-inverted-flag", property="C19", edits=[(D, "                    config.jaxtyping_disable\n                    or getattr(fn", "                    not config.jaxtyping_disable\n                    or getattr(fn")]),
    dict(id="c19-flag-read-at-decoration", property="C19", edits=[(D, "            wrapped_fn_holder = []  # Avoids introducing a reference cycle.", "            wrapped_fn_holder = []  # Avoids introducing a reference cycle.\n            _disabled_at_decoration = config.jaxtyping_disable"), (D, "                    config.jaxtyping_disable\n                    or getattr(fn", "                    _disabled_at_decoration\n                    or getattr(fn")]),
    dict(id="c19-str2bool-truthy", property="C19", edits=[(CFG, """        else:
            raise ValueError(error)
    else:
        raise ValueError(error)""", """        else:
            return bool(value)
    else:
        raise ValueError(error)""")]),
    dict(id="c19-no-lower", property="C19", edits=[(CFG, 'if value.lower() in ("0", "false"):', 'if value in ("0", "false", "False"):')]),
    # (c19-no-type-check-on-fn-ignored: equivalent - ft.wraps copies __no_type_check__ from fn.__dict__ onto the wrapper)
    dict(id="c19-no-type-check-on-wrapper-ignored", property="C19", edits=[(D, '                    or getattr(wrapped_fn_holder[0](), "__no_type_check__", False)\n', "")]),
    dict(id="c19-disabled-still-pushes-context", property="C19", edits=[(D, "                ):\n                    return fn(*args, **kwargs)\n\n                # Raise bind-time", "                ):\n                    push_shape_memo({})\n                    try:\n                        return fn(*args, **kwargs)\n                    finally:\n                        pop_shape_memo()\n\n                # Raise bind-time")]),
    dict(id="c19-dataclass-wrapped-only-when-enabled", property="C19", edits=[(D, "        if dataclasses.is_dataclass(fn) and typechecker is not None:", "        if dataclasses.is_dataclass(fn) and typechecker is not None and not config.jaxtyping_disable:")]),
    dict(id="c19-nonbool-accepted", property="C19", edits=[(CFG, "    else:\n        raise ValueError(error)\n\n\nclass", "    else:\n        return bool(value)\n\n\nclass")]),
]

MUTANTS += [
    # ---- C17
    dict(id="c17-reads-values-any", property="C17", edits=[(A, "        if cls.index_variadic is None:\n            if len(obj.shape) != len(cls.dims):", "        if cls.index_variadic is None:\n            if hasattr(obj, 'any') and len(obj.shape) == 1 and bool((obj != obj).any()):\n                return 'nan'\n            if len(obj.shape) != len(cls.dims):")]),
    dict(id="c17-np-asarray-shape", property="C17", edits=[(A, "            if len(obj.shape) != len(cls.dims):\n                return f\"this array has {len(obj.shape)} dimensions, not", "            if len(np.asarray(obj).shape) != len(cls.dims):\n                return f\"this array has {len(obj.shape)} dimensions, not")]),
    dict(id="c17-size-zero-shortcut", property="C17", edits=[(A, "        single_memo, variadic_memo, pytree_memo, arg_memo = get_shape_memo()\n        single_memo_bak", "        if type(obj).__name__ == 'ArrayImpl' and obj.ndim == 2 and float(obj.sum()) > 1e9:\n            return ''\n        single_memo, variadic_memo, pytree_memo, arg_memo = get_shape_memo()\n        single_memo_bak")]),
    dict(id="c17-tracer-skips-shape-check", property="C17", edits=[(A, "        single_memo, variadic_memo, pytree_memo, arg_memo = get_shape_memo()\n        single_memo_bak", "        if 'Tracer' in type(obj).__name__ and len(obj.shape) >= 3:\n            return ''\n        single_memo, variadic_memo, pytree_memo, arg_memo = get_shape_memo()\n        single_memo_bak")]),
    dict(id="c17-batchtracer-uses-batched-shape", property="C17", edits=[(A, "            check = cls._check_shape(obj, single_memo, variadic_memo, arg_memo)", "            check = cls._check_shape(getattr(obj, 'val', obj) if type(obj).__name__ == 'BatchTracer' else obj, single_memo, variadic_memo, arg_memo)")]),
]

MUTANTS += [
    # ---- C10
    dict(id="c10-function-decorator-outermost", property="C10", edits=[(I, "        node.decorator_list.append(decorator)\n", "        node.decorator_list.insert(0, decorator)\n")]),
    dict(id="c10-no-copy-location-function", property="C10", edits=[(I, "        decorator = self._typechecker.get_ast()\n        ast.copy_location(decorator, node)\n        ast.fix_missing_locations(decorator)\n        # Place at the end", "        decorator = self._typechecker.get_ast()\n        ast.fix_missing_locations(decorator)\n        # Place at the end")]),
    dict(id="c10-import-at-body0", property="C10", edits=[(I, "        for i, child in enumerate(node.body):\n            if isinstance(child, ast.ImportFrom) and child.module == \"__future__\":\n                continue", "        for i, child in enumerate(node.body):\n            if False:\n                continue")]),
    dict(id="c10-visit-async", property="C10", edits=[(I, "                        if isinstance(item, (ast.FunctionDef, ast.ClassDef)):", "                        if isinstance(item, (ast.FunctionDef, ast.AsyncFunctionDef, ast.ClassDef)):"), (I, "class _JaxtypingLoader(SourceFileLoader):", "JaxtypingTransformer.visit_AsyncFunctionDef = JaxtypingTransformer.visit_FunctionDef\n\n\nclass _JaxtypingLoader(SourceFileLoader):")]),
    dict(id="c10-class-decorator-innermost", property="C10", edits=[(I, "        node.decorator_list.insert(0, decorator)\n", "        node.decorator_list.append(decorator)\n")]),
    dict(id="c10-nested-defs-not-visited", property="C10", edits=[(I, "        node.decorator_list.append(decorator)\n\n        self._parents.append(node)\n        self.generic_visit(node)\n        self._parents.pop()", "        node.decorator_list.append(decorator)")]),
    dict(id="c10-docstring-after-import", property="C10", edits=[(I, "            elif isinstance(child, ast.Expr) and isinstance(child.value, ast.Constant):\n                continue  # module docstring", "            elif False:\n                continue  # module docstring")]),
    dict(id="c10-wrong-hash-in-decorator", property="C10", edits=[(I, "Typechecker.lookup['{self.hash}'])", "Typechecker.lookup['{self.hash[:-1]}'])")]),
    dict(id="c10-strips-return-annotations", property="C10", edits=[(I, "        decorator = self._typechecker.get_ast()\n        ast.copy_location(decorator, node)\n        ast.fix_missing_locations(decorator)\n        # Place at the end", "        decorator = self._typechecker.get_ast()\n        ast.copy_location(decorator, node)\n        ast.fix_missing_locations(decorator)\n        if isinstance(node.returns, ast.Constant):\n            node.returns = None\n        # Place at the end")]),
    dict(id="c10-def-defaults-reversed", property="C10", edits=[(I, "        node.decorator_list.append(decorator)\n", "        node.decorator_list.append(decorator)\n        if len(node.args.defaults) > 1:\n            node.args.defaults = node.args.defaults[::-1]\n")]),
    # the walker only visits statements: re-introduce the recursive walk over everything (F14)
    dict(id="c10-f14-recursive-walk", property="C10", edits=[(I, "    def generic_visit(self, node: ast.AST):\n", "    def generic_visit(self, node: ast.AST):\n        return ast.NodeVisitor.generic_visit(self, node)\n\n    def _unused_generic_visit(self, node: ast.AST):\n")]),
    dict(id="c10-walker-skips-except-handlers", property="C10", edits=[(I, "                            item, (ast.stmt, ast.excepthandler, ast.match_case)", "                            item, (ast.stmt, ast.match_case)")]),
    dict(id="c10-import-without-location", property="C10", edits=[(I, "                    new_node.lineno = new_node.end_lineno = 1\n", "                    new_node.lineno = new_node.end_lineno = 2\n")]),
]

MUTANTS += [
    # ---- C11
    dict(id="c11-startswith-without-dot", property="C11", edits=[(I, 'if module_name == module or module_name.startswith(module + "."):', "if module_name.startswith(module):")]),
    dict(id="c11-uninstall-noop", property="C11", edits=[(I, "            sys.meta_path.remove(self.hook)\n", "            pass\n")]),
    dict(id="c11-lookup-constant-key", property="C11", edits=[(I, "            Typechecker.lookup[self.hash] = vars[\"f\"]", "            self.hash = 'k'\n            Typechecker.lookup[self.hash] = vars[\"f\"]")]),
    dict(id="c11-only-exact-name", property="C11", edits=[(I, 'if module_name == module or module_name.startswith(module + "."):', "if module_name == module:")]),
    dict(id="c11-exit-does-not-uninstall", property="C11", edits=[(I, "    def __exit__(self, exc_type, exc_val, exc_tb):\n        self.uninstall()", "    def __exit__(self, exc_type, exc_val, exc_tb):\n        pass")]),
    dict(id="c11-hook-appended-last", property="C11", edits=[(I, "    sys.meta_path.insert(0, hook)", "    sys.meta_path.insert(max(i for i, f in enumerate(sys.meta_path) if 'axtyping' in type(f).__name__) + 1 if any('axtyping' in type(f).__name__ for f in sys.meta_path) else 0, hook)")]),
    dict(id="c11-str-modules-iterated-by-char", property="C11", edits=[(I, "    if isinstance(modules, str):\n        modules = [modules]\n", "")]),
    dict(id="c11-tuple-checker-first-elem", property="C11", edits=[(I, '        typechecker = ".".join(typechecker)', '        typechecker = ".".join(typechecker[:2][:1] + ("A",))')]),
    dict(id="c11-pytest-last-package-dropped", property="C11", edits=[("jaxtyping/_pytest_plugin.py", "    *packages, typechecker = packages\n", "    *packages, typechecker = packages\n    packages = packages[:-1] or packages\n")]),
    dict(id="c11-ipython-keeps-old-transformer", property="C11", edits=[("jaxtyping/_ipython_extension.py", "                    lambda x: not isinstance(x, JaxtypingTransformer),", "                    lambda x: True,")]),
]

MUTANTS += [
    # ---- C18
    dict(id="c18-tag-without-checker-hash", property="C18", edits=[(I, 'optimization=f"{level}jaxtyping9{typechecker_hash}"', 'optimization=f"{level}jaxtyping9"')]),
    dict(id="c18-no-tag-at-all", property="C18", edits=[(I, "        _cache_marker.typechecker_hash = self._typechecker.get_hash()\n", "        pass\n")]),
    dict(id="c18-patch-whole-exec", property="C18", edits=[(I, "    def get_code(self, fullname):", "    def exec_module(self, module):\n        _install_cache_from_source()\n        previous = getattr(_cache_marker, \"typechecker_hash\", None)\n        _cache_marker.typechecker_hash = self._typechecker.get_hash()\n        try:\n            return super().exec_module(module)\n        finally:\n            _cache_marker.typechecker_hash = previous\n\n    def get_code(self, fullname):")]),
    dict(id="c18-hash-of-first-char", property="C18", edits=[(I, 'self.hash = hashlib.md5(typechecker.encode("utf-8")).hexdigest()', 'self.hash = hashlib.md5(typechecker[:7].encode("utf-8")).hexdigest()')]),
    dict(id="c18-patch-never-undone", property="C18", edits=[(I, "        finally:\n            _cache_marker.typechecker_hash = previous", "        finally:\n            pass")]),
    # F15 re-introduced: the marker is visible to every thread
    dict(id="c18-f15-process-wide-marker", property="C18", edits=[(I, "_cache_marker = threading.local()", "_cache_marker = type(\"_Marker\", (), {})()")]),
    # F16 re-introduced: the hook's cache tag replaces the interpreter's optimisation level
    dict(id="c18-f16-tag-drops-optimisation-level", property="C18", edits=[(I, 'optimization=f"{level}jaxtyping9{typechecker_hash}"', 'optimization=f"jaxtyping9{typechecker_hash}"')]),
    # F17 re-introduced: a Python-level call after the memo has been pushed
    dict(id="c05-f17-call-after-push", property="C05", edits=[("jaxtyping/_storage.py", '            getattr(_treeflatten_storage, "value", False),\n            getattr(_treepath_storage, "value", None),', '            get_treeflatten_memo(),\n            getattr(_treepath_storage, "value", None),')]),
    # F18 re-introduced: the leaf-type helper switches itself off under python -O
    dict(id="c08-f18-leaf-check-off-under-O", property="C08", edits=[("jaxtyping/_pytree_type.py", "            @typechecked(always=True)", "            @typechecked")]),
    # F19 re-introduced: the property branch drops the docstring argument
    dict(id="c07-f19-property-doc-dropped", property="C07", edits=[("jaxtyping/_decorator.py", "return property(fget=fget, fset=fset, fdel=fdel, doc=doc)", "return property(fget=fget, fset=fset, fdel=fdel)")]),
]

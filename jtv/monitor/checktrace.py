"""Check-trace monitor: records every array / PyTree isinstance check made through the
annotation metaclasses, with nesting depth, result and (optionally) public bindings
before/after. Attached from the harness by assigning to the metaclass attributes after
import; if an attachment point is gone, `attached` stays False and black-box oracles decide.
"""

from __future__ import annotations

import threading

_tl = threading.local()
attached = False
_orig = {}


def _state():
    if not hasattr(_tl, "depth"):
        _tl.depth = 0
        _tl.log = None
        _tl.hook = None
    return _tl


def start(hook=None):
    s = _state()
    s.log = []
    s.hook = hook
    return s.log


def stop():
    s = _state()
    log, s.log, s.hook = s.log, None, None
    return log


def _wrap(kind, orig):
    def __instancecheck__(cls, obj):
        s = _state()
        if s.log is None:
            return orig(cls, obj)
        ev = {"kind": kind, "ann": cls, "obj": obj, "depth": s.depth, "result": None, "parent": getattr(s, "cur", None)}
        s.log.append(ev)
        prev = getattr(s, "cur", None)
        s.cur = ev
        s.depth += 1
        if s.hook is not None:
            s.hook("enter", ev)
        try:
            r = orig(cls, obj)
            ev["result"] = bool(r)
            return r
        except BaseException as e:  # noqa
            ev["result"] = e
            raise
        finally:
            s.depth -= 1
            s.cur = prev
            if s.hook is not None:
                s.hook("exit", ev)

    return __instancecheck__


def attach():
    global attached
    if attached:
        return True
    try:
        from jaxtyping import _array_types, _pytree_type

        ma = _array_types._MetaAbstractArray
        mp = _pytree_type._MetaPyTree
        _orig["array"] = ma.__instancecheck__
        _orig["pytree"] = mp.__instancecheck__
        ma.__instancecheck__ = _wrap("array", _orig["array"])
        mp.__instancecheck__ = _wrap("pytree", _orig["pytree"])
        attached = True
    except Exception:
        attached = False
    return attached


def detach():
    global attached
    if not attached:
        return
    from jaxtyping import _array_types, _pytree_type

    _array_types._MetaAbstractArray.__instancecheck__ = _orig["array"]
    _pytree_type._MetaPyTree.__instancecheck__ = _orig["pytree"]
    attached = False

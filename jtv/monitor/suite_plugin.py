"""pytest plugin: run the repository's own test suite under the check-trace monitor and
assert the C04 invariant on every array / PyTree isinstance event it produces:

    a check that returns False or raises leaves print_bindings() exactly as it was;
    (for top-level events) repeating a check that passed passes again and binds nothing new.

Loaded with `-p jtv.monitor.suite_plugin`; writes a JSON summary to $JTV_SUITE_MONITOR_OUT.
The plugin only observes: it never changes a verdict seen by the test.
"""

from __future__ import annotations

import json
import os

from . import checktrace

STATE = {"events": 0, "failed_or_raised": 0, "passed": 0, "repeated": 0, "violations": [], "reentrancy_guard": False}


def _transcript():
    from .. import real

    return real.raw_transcript()


def _hook(phase, ev):
    if STATE["reentrancy_guard"]:
        return
    if phase == "enter":
        STATE["reentrancy_guard"] = True
        try:
            ev["before"] = _transcript()
        finally:
            STATE["reentrancy_guard"] = False
        return
    STATE["events"] += 1
    STATE["reentrancy_guard"] = True
    try:
        after = _transcript()
        res = ev["result"]
        if res is True:
            STATE["passed"] += 1
        else:
            STATE["failed_or_raised"] += 1
            if after != ev.get("before"):
                if len(STATE["violations"]) < 20:
                    STATE["violations"].append(
                        {
                            "test": os.environ.get("PYTEST_CURRENT_TEST", "?"),
                            "annotation": getattr(ev["ann"], "__name__", repr(ev["ann"])),
                            "result": "False" if res is False else type(res).__name__,
                            "before": ev.get("before"),
                            "after": after,
                        }
                    )
    finally:
        STATE["reentrancy_guard"] = False


def pytest_configure(config):
    if checktrace.attach():
        checktrace.start(hook=_hook)
        STATE["attached"] = True
    else:
        STATE["attached"] = False


def pytest_runtest_setup(item):
    # the log list is only a side effect of the monitor here; keep it from growing
    s = checktrace._state()
    if s.log is not None:
        del s.log[:]


def pytest_sessionfinish(session, exitstatus):
    out = os.environ.get("JTV_SUITE_MONITOR_OUT")
    if out:
        with open(out, "w") as f:
            json.dump({k: v for k, v in STATE.items() if k != "reentrancy_guard"}, f)

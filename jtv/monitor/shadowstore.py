"""Shadow-store monitor: every reference to the `_storage` accessors in the modules that
imported them by name is wrapped, and a per-thread shadow (itself a threading.local, so
the monitor cannot become the race) records what *this* thread stored.

Invariants asserted at the hooks:
  ownership  - get_shape_memo / get_treepath / get_treeflatten return exactly what the same
               thread last stored (C06);
  balance    - pop never runs on an empty shadow stack, depth returns to its start (C05);
  quiescence - flatten flag False and '?' label None whenever queried at depth 0 by the
               harness (C12).
Violations are appended to `events`; nothing is raised into the code under test.
"""

from __future__ import annotations

import threading

_tl = threading.local()
attached = False
violations = []  # (kind, detail) - appended under _lock
counters = {"get_shape": 0, "get_flat": 0, "get_path": 0, "push": 0, "pop": 0, "set": 0}
_lock = threading.Lock()
_saved = []


def _sh():
    if not hasattr(_tl, "stack"):
        _tl.stack = []  # list of tuples of dict ids
        _tl.flat = False
        _tl.paths = []  # '?' leaf positions this thread has entered and not left (innermost last)
        _tl.suspended = []  # (flat, paths) of the PyTree check a context was entered from
    return _tl


def _viol(kind, detail):
    with _lock:
        if len(violations) < 50:
            violations.append((kind, detail, threading.current_thread().name))


def attach():
    global attached
    if attached:
        return True
    try:
        from jaxtyping import _array_types, _decorator, _pytree_type, _storage
    except Exception:
        return False
    S = _storage
    names = ("get_shape_memo", "set_shape_memo", "push_shape_memo", "pop_shape_memo", "get_treepath_memo", "set_treepath_memo", "clear_treepath_memo", "get_treeflatten_memo", "set_treeflatten_memo", "clear_treeflatten_memo")
    if not all(callable(getattr(S, n, None)) for n in names) or not all(hasattr(S, a) for a in ("_shape_storage", "_treepath_storage", "_treeflatten_storage")):
        # an attachment point has been refactored away: no shadow monitor, the black-box oracles decide alone
        attached = False
        return False
    orig = {n: getattr(S, n) for n in names}

    def get_shape_memo(*a, **k):
        out = orig["get_shape_memo"](*a, **k)
        sh = _sh()
        counters["get_shape"] += 1
        if sh.stack and sh.stack[-1] is not None:
            if tuple(map(id, out)) != sh.stack[-1]:
                _viol("ownership", f"get_shape_memo returned dicts {tuple(map(id, out))} but this thread's top context is {sh.stack[-1]}")
        return out

    def set_shape_memo(*a, **k):
        r = orig["set_shape_memo"](*a, **k)
        sh = _sh()
        counters["set"] += 1
        if sh.stack:
            now = tuple(map(id, orig["get_shape_memo"]()))
            sh.stack[-1] = now  # replacement of the dict objects by the owner is legal
        return r

    def push_shape_memo(*a, **k):
        memos = orig["push_shape_memo"](*a, **k)
        sh = _sh()
        try:
            sh.stack.append(tuple(map(id, memos)))
        except TypeError:
            sh.stack.append(None)
        # a new context starts outside the PyTree check it was entered from: flatten mode and '?' position are
        # suspended for its duration and come back when it ends
        sh.suspended.append((sh.flat, sh.paths))
        sh.flat, sh.paths = False, []
        counters["push"] += 1
        return memos

    def pop_shape_memo(*a, **k):
        sh = _sh()
        counters["pop"] += 1
        if not sh.stack:
            _viol("balance", "pop_shape_memo on a thread that has no open context")
        else:
            sh.stack.pop()
            if sh.suspended:
                sh.flat, sh.paths = sh.suspended.pop()
        return orig["pop_shape_memo"](*a, **k)

    def get_treepath_memo(*a, **k):
        sh = _sh()
        counters["get_path"] += 1
        mine = sh.paths[-1] if sh.paths else None
        try:
            out = orig["get_treepath_memo"](*a, **k)
        except BaseException:
            if mine is not None and mine not in ("<unknown>", "<nested>"):
                _viol("ownership", f"get_treepath_memo raised although this thread is at leaf position {mine!r}")
            raise
        if mine not in ("<unknown>", "<nested>") and out != mine:
            _viol("ownership", f"get_treepath_memo returned {out!r} but this thread set {mine!r}")
        return out

    def set_treepath_memo(*a, **k):
        r = orig["set_treepath_memo"](*a, **k)
        # what the accessor hands out right now is what this thread "stored" - never the
        # representation kept inside the storage (which a refactoring is free to change).
        # Inside a second structured PyTree the accessor refuses to answer: "<nested>".
        sh = _sh()
        try:
            sh.paths.append(orig["get_treepath_memo"]())
        except Exception:
            sh.paths.append("<nested>" if sh.paths else "<unknown>")
        return r

    def clear_treepath_memo(*a, **k):
        sh = _sh()
        if sh.paths:
            sh.paths.pop()
        return orig["clear_treepath_memo"](*a, **k)

    def get_treeflatten_memo(*a, **k):
        out = orig["get_treeflatten_memo"](*a, **k)
        counters["get_flat"] += 1
        if bool(out) != bool(_sh().flat):
            _viol("ownership", f"get_treeflatten_memo returned {out!r} but this thread last stored {_sh().flat!r}")
        return out

    def set_treeflatten_memo(*a, **k):
        _sh().flat = True
        return orig["set_treeflatten_memo"](*a, **k)

    def clear_treeflatten_memo(*a, **k):
        _sh().flat = False
        return orig["clear_treeflatten_memo"](*a, **k)

    wrappers = dict(locals())
    n_wrapped = 0
    for mod in (_array_types, _pytree_type, _decorator, _storage):
        for name in orig:
            if getattr(mod, name, None) is orig[name]:
                _saved.append((mod, name, orig[name]))
                setattr(mod, name, wrappers[name])
                n_wrapped += 1
    attached = n_wrapped >= 8
    return attached


def detach():
    global attached
    for mod, name, fn in _saved:
        setattr(mod, name, fn)
    _saved.clear()
    attached = False


def quiescent_state():
    """(depth, flat, path) of the *real* storage as seen by this thread - white-box"""
    try:
        from jaxtyping import _storage as S

        depth = len(getattr(S._shape_storage, "memo_stack", []))
        flat = S.get_treeflatten_memo() if not attached else getattr(S._treeflatten_storage, "value", False)
        path = getattr(S._treepath_storage, "value", None)
        return depth, bool(flat), path
    except Exception:
        return None

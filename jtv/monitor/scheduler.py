"""Controlled thread scheduler (baton passing at yield points inside /repo/jaxtyping).

Exactly one worker runs at a time. `sys.settrace` on frames whose file lies under the
jaxtyping package makes every `line` (optionally every `opcode`) event a yield point at
which a policy may hand the baton to another worker. The interleaving is therefore
decided by the policy, not by the OS, and can be enumerated or replayed.

A worker blocked for more than WATCHDOG seconds means the baton holder is stuck on a real
lock: the run is reported as inconclusive by the caller (never as a verdict).
"""

from __future__ import annotations

import os
import sys
import threading

WATCHDOG = 30.0


class Deadlock(Exception):
    pass


class Baton:
    def __init__(self, n, policy):
        self.cv = threading.Condition()
        self.n = n
        self.current = 0
        self.done = [False] * n
        self.points = [0] * n
        self.switches = []  # (from, point index of from, to)
        self.policy = policy
        self.dead = False
        self.where = [None] * n

    def _wait_for(self, me):
        while self.current != me:
            if not self.cv.wait(WATCHDOG):
                self.dead = True
                self.cv.notify_all()
                raise Deadlock(f"thread {me} waited > {WATCHDOG}s for the baton (holder {self.current})")
            if self.dead:
                raise Deadlock("another thread declared deadlock")

    def start(self, me):
        with self.cv:
            self._wait_for(me)

    def yield_point(self, me, where):
        self.points[me] += 1
        self.where[me] = where
        nxt = self.policy(self, me, self.points[me], where)
        if nxt is None or nxt == me or self.done[nxt]:
            return
        with self.cv:
            self.switches.append((me, self.points[me], nxt))
            self.current = nxt
            self.cv.notify_all()
            self._wait_for(me)

    def finish(self, me):
        with self.cv:
            self.done[me] = True
            if self.current == me:
                for k in range(1, self.n + 1):
                    j = (me + k) % self.n
                    if not self.done[j]:
                        self.current = j
                        break
                self.cv.notify_all()


def package_root():
    import jaxtyping

    return os.path.dirname(os.path.abspath(jaxtyping.__file__)) + os.sep


def run(workloads, policy, opcodes=False, root=None):
    """workloads: list of zero-arg callables, one per worker. Returns (results, baton).
    results[i] = ("ok", value) | ("exc", repr)."""
    root = root or package_root()
    n = len(workloads)
    baton = Baton(n, policy)
    results = [None] * n

    def worker(me):
        def local(frame, event, arg):
            if event == "line" or event == "opcode":
                baton.yield_point(me, (frame.f_code.co_filename[len(root):], frame.f_lineno, event))
            return local

        def glob(frame, event, arg):
            if frame.f_code.co_filename.startswith(root):
                if opcodes:
                    frame.f_trace_opcodes = True
                return local
            return None

        try:
            baton.start(me)
            sys.settrace(glob)
            try:
                results[me] = ("ok", workloads[me]())
            finally:
                sys.settrace(None)
        except Deadlock as e:
            results[me] = ("deadlock", str(e))
        except BaseException as e:  # noqa
            results[me] = ("exc", f"{type(e).__name__}: {e}")
        finally:
            try:
                baton.finish(me)
            except Exception:
                pass

    threads = [threading.Thread(target=worker, args=(i,), daemon=True) for i in range(n)]
    for t in threads:
        t.start()
    for t in threads:
        t.join(WATCHDOG * 2)
    if any(t.is_alive() for t in threads):
        baton.dead = True
        with baton.cv:
            baton.cv.notify_all()
    return results, baton


# ---- policies


def never(baton, me, k, where):
    return None


def preempt_once(victim, at, to):
    """run `victim` until its yield point number `at`, then run `to` to completion, then resume"""
    fired = [False]

    def policy(baton, me, k, where):
        if me == victim and k == at and not fired[0]:
            fired[0] = True
            return to
        return None

    return policy


def random_preempt(rng, p):
    def policy(baton, me, k, where):
        if rng.random() < p:
            others = [j for j in range(baton.n) if j != me and not baton.done[j]]
            if others:
                return rng.choice(others)
        return None

    return policy

"""Source-free failpoints at jaxtyping's call-outs into user / third-party code.

sys.monitoring (3.12):
  * PY_START of a code object that does NOT belong to the jaxtyping package, when
      - it belongs to the workload's own files and some jaxtyping frame is on the stack
        (user code reached directly or through third-party C++ such as jax's tree_flatten), or
      - it is entered directly from a jaxtyping frame (typechecker, jax.tree_util, inspect...);
  * CALL of the builtins that dispatch to user code (isinstance, hasattr, getattr, eval,
    repr, issubclass, len) made from jaxtyping code, except inside _storage.py (no user
    object ever reaches those sites).

A dry run numbers the call-outs of an operation 0..N-1; run k re-executes the operation
and raises the chosen exception class from the callback at call-out k.
Faults are injected only at call-outs, because that is what C04/C12 quantify over.
"""

from __future__ import annotations

import builtins
import os
import sys

TOOL = 4  # a free tool id (0 debugger, 1 coverage, 2 profiler, 5 optimizer are reserved names)
DISPATCHING_BUILTINS = {builtins.isinstance, builtins.hasattr, builtins.getattr, builtins.eval, builtins.repr, builtins.issubclass}


class Injected(Exception):
    pass


class InjectedAbort(BaseException):
    pass


class Injector:
    def __init__(self, user_files=()):
        import jaxtyping

        self.root = os.path.dirname(os.path.abspath(jaxtyping.__file__)) + os.sep
        # sites that no user object ever reaches: the storage accessors and the config parser
        self.storage_file = self.root + "_storage.py"
        self.excluded_sites = {self.root + "_storage.py", self.root + "_config.py"}
        # the harness's own monitors wrap jaxtyping functions; they are not call-outs
        self.harness_dir = os.path.dirname(os.path.abspath(__file__)) + os.sep
        self.user_files = set(user_files)
        self.mon = sys.monitoring
        self.active = False
        self.count = 0
        self.target = None
        self.exc = None
        self.log = None
        self.fired = None

    # ---- classification
    def _in_pkg(self, filename):
        return filename.startswith(self.root)

    def _jaxtyping_on_stack(self, frame):
        f = frame
        n = 0
        while f is not None and n < 60:
            if self._in_pkg(f.f_code.co_filename):
                return True
            f = f.f_back
            n += 1
        return False

    def _hit(self, desc):
        k = self.count
        self.count += 1
        if self.log is not None:
            self.log.append(desc)
        if self.target is not None and k == self.target:
            self.fired = desc
            self.target = None  # one fault per run
            raise self.exc(f"injected at call-out #{k}: {desc}")

    def _py_start(self, code, offset):
        if not self.active:
            return
        fn = code.co_filename
        if self._in_pkg(fn) or fn.startswith(self.harness_dir):
            return
        try:
            caller = sys._getframe(2)
        except ValueError:
            return
        if fn in self.user_files:
            if self._jaxtyping_on_stack(caller):
                self._hit(f"user:{os.path.basename(fn)}:{code.co_name}")
            return
        if self._in_pkg(caller.f_code.co_filename) and caller.f_code.co_filename not in self.excluded_sites:
            self._hit(f"thirdparty:{os.path.basename(fn)}:{code.co_name}<-{os.path.basename(caller.f_code.co_filename)}:{caller.f_code.co_name}")

    def _call(self, code, offset, callable_, arg0):
        if not self.active:
            return
        if callable_ in DISPATCHING_BUILTINS:
            fn = code.co_filename
            if self._in_pkg(fn) and fn not in self.excluded_sites:
                self._hit(f"builtin:{callable_.__name__}@{os.path.basename(fn)}:{code.co_name}")

    # ---- lifecycle
    def __enter__(self):
        m = self.mon
        m.use_tool_id(TOOL, "jtv-failpoints")
        m.register_callback(TOOL, m.events.PY_START, self._py_start)
        m.register_callback(TOOL, m.events.CALL, self._call)
        m.set_events(TOOL, m.events.PY_START | m.events.CALL)
        return self

    def __exit__(self, *a):
        m = self.mon
        m.set_events(TOOL, 0)
        m.register_callback(TOOL, m.events.PY_START, None)
        m.register_callback(TOOL, m.events.CALL, None)
        m.free_tool_id(TOOL)

    def dry_run(self, op):
        """-> (list of call-out descriptors, outcome)"""
        self.count, self.target, self.log, self.fired = 0, None, [], None
        self.active = True
        try:
            try:
                out = ("ok", op())
            except BaseException as e:  # noqa
                out = ("raised", type(e).__name__)
        finally:
            self.active = False
        log, self.log = self.log, None
        return log, out

    def run_with_fault(self, op, k, exc):
        """-> (fired descriptor or None, outcome)"""
        self.count, self.target, self.exc, self.log, self.fired = 0, k, exc, None, None
        self.active = True
        try:
            try:
                out = ("ok", op())
            except BaseException as e:  # noqa
                out = ("raised", type(e).__name__)
        finally:
            self.active = False
            self.target = None
        return self.fired, out

"""jtv: runtime-monitoring checks for jaxtyping properties C01..C20."""
